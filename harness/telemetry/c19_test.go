//go:build verif

package telemetry

import (
	"bytes"
	"encoding/json"
	"fmt"
	"io"
	"net"
	"net/http"
	"os"
	"path/filepath"
	"strings"
	"sync"
	"testing"
	"time"

	"github.com/liftbridge-io/liftbridge/server/logger"
	"github.com/liftbridge-io/liftbridge/server/vfutil"
	"pgregory.net/rapid"
)

// The documented field whitelist (CHANGELOG "Anonymous Telemetry").
var c19Whitelist = map[string]bool{
	"instance_id": true, "timestamp": true, "liftbridge_version": true,
	"os": true, "os.name": true, "os.version": true, "os.architecture": true, "os.platform": true,
	"cpu": true, "cpu.physical_cores": true, "cpu.logical_cores": true, "cpu.frequency_mhz": true,
	"memory": true, "memory.total_gb": true,
}

type recordedReq struct {
	URL    string
	Method string
	Header http.Header
	Body   []byte
}

type recorder struct {
	mu     sync.Mutex
	reqs   []recordedReq
	faults []int // outcome of the i-th request (cycled): 0 delivered, 1 status 500, 2 transport error, 3 status 404
}

// the text of a failed delivery names addresses and hosts, as the errors of
// net/http do; none of it may turn up in a later report
const (
	c19FaultAddr = "10.9.8.7:3128"
	c19FaultHost = "MARKproxyhost"
)

func (r *recorder) RoundTrip(req *http.Request) (*http.Response, error) {
	var body []byte
	if req.Body != nil {
		body, _ = io.ReadAll(req.Body)
	}
	r.mu.Lock()
	r.reqs = append(r.reqs, recordedReq{URL: req.URL.String(), Method: req.Method, Header: req.Header.Clone(), Body: body})
	fault := 0
	if len(r.faults) > 0 {
		fault = r.faults[(len(r.reqs)-1)%len(r.faults)]
	}
	r.mu.Unlock()
	switch fault {
	case 1, 3:
		code := map[int]int{1: 500, 3: 404}[fault]
		return &http.Response{StatusCode: code, Status: fmt.Sprintf("%d served by %s", code, c19FaultHost), Body: io.NopCloser(strings.NewReader("error page of " + c19FaultHost + " at " + c19FaultAddr)),
			Header: http.Header{"X-Served-By": []string{c19FaultHost}}, Request: req}, nil
	case 2:
		addr, _ := net.ResolveTCPAddr("tcp", c19FaultAddr)
		return nil, &net.OpError{Op: "dial", Net: "tcp", Addr: addr, Err: fmt.Errorf("connect to %s: connection refused", c19FaultHost)}
	}
	return &http.Response{StatusCode: 200, Body: io.NopCloser(bytes.NewReader(nil)), Header: http.Header{}, Request: req}, nil
}

func (r *recorder) snapshot() []recordedReq {
	r.mu.Lock()
	defer r.mu.Unlock()
	return append([]recordedReq(nil), r.reqs...)
}

type c19Case struct {
	Enabled    bool   `json:"enabled"`
	IntervalMs int    `json:"interval_ms"`
	Marker     string `json:"marker"` // appears in the data dir path
	WaitMs     int    `json:"wait_ms"`
	Restart    bool   `json:"restart"` // a second collector over the same data dir
	Faults     []int  `json:"faults,omitempty"` // outcomes of the deliveries, cycled (see recorder)
}

func genC19a(t *rapid.T) c19Case {
	c := genC19aBase(t)
	if rapid.Bool().Draw(t, "faulty") {
		// deliveries that fail (status >= 400, transport error) between deliveries
		// that get through: short intervals so that several reports are made
		c.Faults = rapid.SliceOfN(rapid.SampledFrom([]int{0, 0, 1, 2, 2, 3}), 1, 5).Draw(t, "faults")
		c.IntervalMs = rapid.SampledFrom([]int{1, 2}).Draw(t, "fastinterval")
		c.WaitMs = rapid.SampledFrom([]int{5, 15, 30}).Draw(t, "longwait")
	}
	return c
}

func genC19aBase(t *rapid.T) c19Case {
	return c19Case{
		Enabled:    rapid.Bool().Draw(t, "enabled"),
		IntervalMs: rapid.SampledFrom([]int{1, 2, 5, 1000, 86400000}).Draw(t, "interval"),
		Marker:     "MARK" + rapid.StringMatching(`[a-z]{4,8}`).Draw(t, "marker"),
		WaitMs:     rapid.SampledFrom([]int{0, 1, 5, 15}).Draw(t, "wait"),
		Restart:    rapid.Bool().Draw(t, "restart"),
	}
}

// checkPayload verifies a recorded request against the whitelist and markers.
func checkPayload(rq recordedReq, markers []string) *vfutil.Failure {
	if rq.URL != DefaultEndpoint {
		return vfutil.Failf("C19/other-endpoint", "telemetry request went to %s", rq.URL)
	}
	var v map[string]interface{}
	if err := json.Unmarshal(rq.Body, &v); err != nil {
		return vfutil.Failf("C19/payload-not-json", "%v: %q", err, rq.Body)
	}
	var walk func(prefix string, x interface{}) *vfutil.Failure
	walk = func(prefix string, x interface{}) *vfutil.Failure {
		if m, ok := x.(map[string]interface{}); ok {
			for k, val := range m {
				p := k
				if prefix != "" {
					p = prefix + "." + k
				}
				if !c19Whitelist[p] {
					return vfutil.Failf("C19/undocumented-field", "telemetry payload carries undocumented field %q = %v", p, val)
				}
				if f := walk(p, val); f != nil {
					return f
				}
			}
		}
		return nil
	}
	if f := walk("", v); f != nil {
		return f
	}
	hay := string(rq.Body)
	for k, vs := range rq.Header {
		hay += "\n" + k + ": " + strings.Join(vs, ",")
	}
	for _, m := range markers {
		if m != "" && strings.Contains(hay, m) {
			return vfutil.Failf("C19/user-data-in-report", "telemetry request contains %q: %s", m, hay)
		}
	}
	return nil
}

func runC19a(c c19Case, o *vfutil.Obs) *vfutil.Failure {
	rec := &recorder{faults: c.Faults}
	saved := http.DefaultTransport
	http.DefaultTransport = rec
	defer func() { http.DefaultTransport = saved }()

	root := vfutil.TempDir("c19")
	defer os.RemoveAll(root)
	dataDir := filepath.Join(root, c.Marker)
	log := logger.NewLogger(0)
	log.Silent(true)
	rounds := 1
	if c.Restart {
		rounds = 2
	}
	var firstID string
	for r := 0; r < rounds; r++ {
		col, err := New(&Config{Enabled: c.Enabled, Interval: time.Duration(c.IntervalMs) * time.Millisecond, DataDir: dataDir}, "v-test", log)
		if err != nil {
			return vfutil.Failf("C19/collector-error", "%v", err)
		}
		if r == 0 {
			firstID = col.GetInstanceID()
		} else if col.GetInstanceID() != firstID {
			return vfutil.Failf("C19/instance-id-not-persistent", "instance id changed across restarts: %s -> %s", firstID, col.GetInstanceID())
		}
		before := len(rec.snapshot())
		col.Start()
		if c.Enabled {
			// bounded liveness: the initial beacon
			deadline := time.Now().Add(20 * time.Second)
			for len(rec.snapshot()) == before && time.Now().Before(deadline) {
				time.Sleep(200 * time.Microsecond)
			}
		}
		time.Sleep(time.Duration(c.WaitMs) * time.Millisecond)
		col.Stop()
		after := len(rec.snapshot())
		if c.Enabled && after == before {
			return vfutil.Failf("C19/enabled-no-report/bounded-liveness(20s)", "enabled collector sent nothing")
		}
		time.Sleep(2 * time.Millisecond)
		if n := len(rec.snapshot()); n != after {
			return vfutil.Failf("C19/report-after-stop", "%d request(s) were made after Stop()", n-after)
		}
	}
	reqs := rec.snapshot()
	if !c.Enabled {
		o.Label("disabled")
		if c.IntervalMs <= 5 && c.WaitMs > 0 {
			o.NonTrivial() // several intervals elapsed while disabled
		}
		if len(reqs) != 0 {
			return vfutil.Failf("C19/disabled-but-reported", "telemetry disabled but %d request(s) were made, first to %s", len(reqs), reqs[0].URL)
		}
		return nil
	}
	o.Label("enabled")
	o.NonTrivial()
	if len(reqs) > 1 {
		o.Label("several-reports")
	}
	failedBefore := false
	for i, rq := range reqs {
		if f := checkPayload(rq, []string{c.Marker, root, c19FaultAddr, "10.9.8.7", c19FaultHost}); f != nil {
			if failedBefore {
				f.Message += " (a report made after a failed delivery)"
			}
			return f
		}
		if failedBefore {
			o.Label("report-after-a-failed-delivery")
		}
		if len(c.Faults) > 0 && c.Faults[i%len(c.Faults)] != 0 {
			failedBefore = true
		}
	}
	return nil
}

func TestVerifC19a(t *testing.T) {
	vfutil.Run(t, vfutil.Spec[c19Case]{ID: "C19", Gen: genC19a, Run: runC19a})
}

var _ = fmt.Sprintf
