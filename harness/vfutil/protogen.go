package vfutil

import (
	"fmt"
	"reflect"
	"strings"

	"pgregory.net/rapid"
)

// FillProto fills the exported protobuf fields of the struct pointed to by v
// with generated values (valid UTF-8 strings; nested messages up to depth).
func FillProto(t *rapid.T, v reflect.Value, path string, depth int) {
	if v.Kind() == reflect.Ptr {
		v = v.Elem()
	}
	ty := v.Type()
	for i := 0; i < ty.NumField(); i++ {
		sf := ty.Field(i)
		if sf.PkgPath != "" || strings.HasPrefix(sf.Name, "XXX_") {
			continue
		}
		if _, ok := sf.Tag.Lookup("protobuf"); !ok {
			continue
		}
		fillValue(t, v.Field(i), path+"."+sf.Name, depth)
	}
}

var smallString = rapid.OneOf(
	rapid.Just(""),
	rapid.StringMatching(`[a-z]{1,6}`),
	rapid.StringN(0, 40, -1),
)

var smallBytes = rapid.OneOf(
	rapid.Just([]byte(nil)),
	rapid.SliceOfN(rapid.Byte(), 0, 12),
	rapid.SliceOfN(rapid.Byte(), 0, 300),
)

func fillValue(t *rapid.T, f reflect.Value, path string, depth int) {
	switch f.Kind() {
	case reflect.Bool:
		f.SetBool(rapid.Bool().Draw(t, path))
	case reflect.Int32:
		if f.Type().Name() != "int32" { // enum
			f.SetInt(int64(rapid.Int32Range(0, 16).Draw(t, path)))
		} else {
			f.SetInt(int64(rapid.Int32().Draw(t, path)))
		}
	case reflect.Int64:
		f.SetInt(rapid.Int64().Draw(t, path))
	case reflect.Uint32:
		f.SetUint(uint64(rapid.Uint32().Draw(t, path)))
	case reflect.Uint64:
		f.SetUint(rapid.Uint64().Draw(t, path))
	case reflect.Float32, reflect.Float64:
		f.SetFloat(float64(rapid.Int32().Draw(t, path)))
	case reflect.String:
		f.SetString(smallString.Draw(t, path))
	case reflect.Slice:
		if f.Type().Elem().Kind() == reflect.Uint8 {
			f.SetBytes(smallBytes.Draw(t, path))
			return
		}
		n := rapid.IntRange(0, 3).Draw(t, path+"#")
		if depth <= 0 && f.Type().Elem().Kind() == reflect.Ptr {
			n = 0
		}
		if n == 0 {
			return
		}
		s := reflect.MakeSlice(f.Type(), n, n)
		for i := 0; i < n; i++ {
			ep := fmt.Sprintf("%s[%d]", path, i)
			if s.Index(i).Kind() == reflect.Ptr && s.Index(i).Type().Elem().Kind() == reflect.Struct {
				// a nil element of a repeated message field is not encodable
				p := reflect.New(s.Index(i).Type().Elem())
				FillProto(t, p, ep, depth-1)
				s.Index(i).Set(p)
				continue
			}
			fillValue(t, s.Index(i), ep, depth-1)
		}
		f.Set(s)
	case reflect.Map:
		n := rapid.IntRange(0, 3).Draw(t, path+"#")
		if n == 0 {
			return
		}
		m := reflect.MakeMap(f.Type())
		for i := 0; i < n; i++ {
			k := reflect.New(f.Type().Key()).Elem()
			fillValue(t, k, fmt.Sprintf("%s{k%d}", path, i), depth-1)
			e := reflect.New(f.Type().Elem()).Elem()
			fillValue(t, e, fmt.Sprintf("%s{v%d}", path, i), depth-1)
			if e.Kind() == reflect.Slice && e.IsNil() {
				e.Set(reflect.MakeSlice(e.Type(), 0, 0))
			}
			m.SetMapIndex(k, e)
		}
		f.Set(m)
	case reflect.Ptr:
		if f.Type().Elem().Kind() != reflect.Struct {
			return
		}
		if depth <= 0 || !rapid.Bool().Draw(t, path+"?") {
			// inside repeated fields a nil element is not encodable
			return
		}
		p := reflect.New(f.Type().Elem())
		FillProto(t, p, path, depth-1)
		f.Set(p)
	}
}
