// Package vfutil is the shared runtime of the /verif harnesses: it turns a
// (generator, deterministic executor+oracle) pair into a rapid search, a plain
// replay, and a per-shard statistics file that the /verif/check driver merges
// into the evidence file. It is injected into the build with -overlay and is
// not part of liftbridge.
package vfutil

import (
	"crypto/sha1"
	"encoding/hex"
	"encoding/json"
	"fmt"
	"os"
	"path/filepath"
	"runtime/debug"
	"sort"
	"strings"
	"sync"
	"testing"

	"pgregory.net/rapid"
)

// Failure is one oracle violation.
type Failure struct {
	Signature string `json:"signature"`
	Message   string `json:"message"`
}

// Failf builds a Failure.
func Failf(sig, format string, args ...interface{}) *Failure {
	return &Failure{Signature: sig, Message: fmt.Sprintf(format, args...)}
}

// Obs is the per-case observer handed to the executor.
type Obs struct {
	mu           sync.Mutex
	labels       map[string]int
	nontrivial   bool
	inconclusive string
	excluded     map[string]int
	counters     map[string]int
}

func newObs() *Obs {
	return &Obs{labels: map[string]int{}, excluded: map[string]int{}, counters: map[string]int{}}
}

// Label marks the case as belonging to a class.
func (o *Obs) Label(s string) {
	if o == nil {
		return
	}
	o.mu.Lock()
	o.labels[s]++
	o.mu.Unlock()
}

// Count adds to a free-form counter reported in the evidence.
func (o *Obs) Count(s string, n int) {
	if o == nil {
		return
	}
	o.mu.Lock()
	o.counters[s] += n
	o.mu.Unlock()
}

// NonTrivial marks the case as non-trivial by the property's stated rule.
func (o *Obs) NonTrivial() {
	if o == nil {
		return
	}
	o.mu.Lock()
	o.nontrivial = true
	o.mu.Unlock()
}

// Excluded records that part of the case was constructed away because of the
// named open finding.
func (o *Obs) Excluded(name string) {
	if o == nil {
		return
	}
	o.mu.Lock()
	o.excluded[name]++
	o.mu.Unlock()
}

// Inconclusive marks the case as not judged (e.g. it straddled a timer).
func (o *Obs) Inconclusive(why string) {
	if o == nil {
		return
	}
	o.mu.Lock()
	o.inconclusive = why
	o.mu.Unlock()
}

// Tier returns "quick" or "thorough".
func Tier() string {
	if os.Getenv("VERIF_TIER") == "thorough" {
		return "thorough"
	}
	return "quick"
}

// Thorough reports whether the thorough tier is running.
func Thorough() bool { return Tier() == "thorough" }

var (
	exclOnce sync.Once
	exclSet  map[string]bool
)

// IsExcluded reports whether the named exclusion switch (open finding) is on.
func IsExcluded(name string) bool {
	exclOnce.Do(func() {
		exclSet = map[string]bool{}
		for _, s := range strings.Split(os.Getenv("VERIF_EXCLUDE"), ",") {
			s = strings.TrimSpace(s)
			if s != "" {
				exclSet[s] = true
			}
		}
	})
	return exclSet[name]
}

// Param returns an integer parameter passed by the driver (VERIF_P_<name>).
func Param(name string, def int) int {
	v := os.Getenv("VERIF_P_" + name)
	if v == "" {
		return def
	}
	var n int
	if _, err := fmt.Sscanf(v, "%d", &n); err != nil {
		return def
	}
	return n
}

// ScratchRoot returns the directory under which cases create their files.
func ScratchRoot() string {
	d := os.Getenv("VERIF_SCRATCH")
	if d == "" {
		d = filepath.Join(os.TempDir(), fmt.Sprintf("verif-%d", os.Getpid()))
	}
	_ = os.MkdirAll(d, 0o755)
	return d
}

// TempDir makes a fresh directory for one case.
func TempDir(prefix string) string {
	d, err := os.MkdirTemp(ScratchRoot(), prefix)
	if err != nil {
		panic(err)
	}
	return d
}

// Spec describes one decidable unit.
type Spec[C any] struct {
	ID  string // property id, e.g. "C14"
	Gen func(t *rapid.T) C
	Run func(c C, o *Obs) *Failure
	// Journal writes the case to <out>.current before it runs, so that a
	// crash of the whole process can be replayed by the driver.
	Journal bool
	// Summary optionally renders a case for the evidence samples.
	Summary func(c C) interface{}
}

type shardResult struct {
	Property       string            `json:"property"`
	Unit           string            `json:"unit"`
	Mode           string            `json:"mode"`
	Evaluations    int               `json:"evaluations"`
	NonTrivial     int               `json:"nontrivial"`
	Hashes         []string          `json:"hashes"`
	HashesCapped   bool              `json:"hashes_capped"`
	Labels         map[string]int    `json:"labels"`
	Counters       map[string]int    `json:"counters"`
	Excluded       map[string]int    `json:"excluded"`
	Inconclusive   map[string]int    `json:"inconclusive"`
	Samples        []json.RawMessage `json:"samples"`
	Exhaustive     bool              `json:"exhaustive"`
	Failed         bool              `json:"failed"`
	Failure        *Failure          `json:"failure,omitempty"`
	FailCase       json.RawMessage   `json:"fail_case,omitempty"`
	ShrinkRuns     int               `json:"shrink_runs"`
	Replays        []replayResult    `json:"replays,omitempty"`
	RapidRequested int               `json:"rapid_requested"`
	HarnessNotes   map[string]string `json:"harness_notes,omitempty"`
}

type replayResult struct {
	File      string   `json:"file"`
	Failed    bool     `json:"failed"`
	Failure   *Failure `json:"failure,omitempty"`
	DecodeErr string   `json:"decode_err,omitempty"`
}

// ReplayFile is the on-disk format of a replay.
type ReplayFile struct {
	Property  string          `json:"property"`
	Unit      string          `json:"unit"`
	Signature string          `json:"signature"`
	Message   string          `json:"message"`
	Case      json.RawMessage `json:"case"`
}

const maxHashes = 400000
const maxSamples = 4

type collector[C any] struct {
	spec    Spec[C]
	res     shardResult
	hashes  map[string]struct{}
	failed  bool
	out     string
	ntSeen  int
	trivial []json.RawMessage
}

func guarded[C any](spec Spec[C], c C, o *Obs) (f *Failure) {
	defer func() {
		if r := recover(); r != nil {
			msg := fmt.Sprint(r)
			sig := msg
			if len(sig) > 80 {
				sig = sig[:80]
			}
			f = &Failure{Signature: "panic/" + sanitize(sig), Message: fmt.Sprintf("panic: %s\n%s", msg, debug.Stack())}
		}
	}()
	return spec.Run(c, o)
}

func sanitize(s string) string {
	var b []rune
	for _, r := range s {
		if r >= '0' && r <= '9' {
			if len(b) > 0 && b[len(b)-1] == '#' {
				continue
			}
			r = '#'
		}
		b = append(b, r)
	}
	return string(b)
}

func (col *collector[C]) sample(c C, raw []byte) json.RawMessage {
	if col.spec.Summary != nil {
		if b, err := json.Marshal(col.spec.Summary(c)); err == nil {
			raw = b
		}
	}
	if len(raw) > 6000 {
		b, _ := json.Marshal(map[string]interface{}{"truncated_case_json": string(raw[:6000]), "full_len": len(raw)})
		return b
	}
	return append(json.RawMessage(nil), raw...)
}

func (col *collector[C]) observe(c C, o *Obs, f *Failure) {
	raw, err := json.Marshal(c)
	if err != nil {
		panic("vfutil: case not JSON-serialisable: " + err.Error())
	}
	if col.failed {
		col.res.ShrinkRuns++
	} else {
		col.res.Evaluations++
		for k, v := range o.labels {
			if v > 0 {
				col.res.Labels[k]++
			}
		}
		for k, v := range o.counters {
			col.res.Counters[k] += v
		}
		for k, v := range o.excluded {
			if v > 0 {
				col.res.Excluded[k]++
			}
		}
		if o.inconclusive != "" {
			col.res.Inconclusive[o.inconclusive]++
		}
		if o.nontrivial && o.inconclusive == "" {
			col.res.NonTrivial++
			h := sha1.Sum(raw)
			hs := hex.EncodeToString(h[:8])
			if _, ok := col.hashes[hs]; !ok {
				if len(col.hashes) < maxHashes {
					col.hashes[hs] = struct{}{}
				} else {
					col.res.HashesCapped = true
				}
				// spread the samples over the run: 1st, 10th, 100th … distinct non-trivial case
				col.ntSeen++
				if n := col.ntSeen; len(col.res.Samples) < maxSamples && (n == 1 || n == 10 || n == 100 || n == 1000) {
					col.res.Samples = append(col.res.Samples, col.sample(c, raw))
				}
			}
		} else if len(col.trivial) < 1 {
			col.trivial = append(col.trivial, col.sample(c, raw))
		}
	}
	if f != nil {
		col.failed = true
		col.res.Failed = true
		col.res.Failure = f
		col.res.FailCase = append(json.RawMessage(nil), raw...)
	}
}

func (col *collector[C]) flush() {
	col.res.Hashes = col.res.Hashes[:0]
	for h := range col.hashes {
		col.res.Hashes = append(col.res.Hashes, h)
	}
	sort.Strings(col.res.Hashes)
	if len(col.res.Samples) == 0 {
		col.res.Samples = col.trivial
	}
	if col.out == "" {
		return
	}
	b, _ := json.Marshal(&col.res)
	tmp := col.out + ".tmp"
	if err := os.WriteFile(tmp, b, 0o644); err == nil {
		_ = os.Rename(tmp, col.out)
	}
}

func newCollector[C any](spec Spec[C], unit, mode string) *collector[C] {
	return &collector[C]{
		spec: spec,
		res: shardResult{Property: spec.ID, Unit: unit, Mode: mode, Labels: map[string]int{}, Counters: map[string]int{},
			Excluded: map[string]int{}, Inconclusive: map[string]int{}},
		hashes: map[string]struct{}{},
		out:    os.Getenv("VERIF_OUT"),
	}
}

// Run executes the unit in the mode chosen by the driver (VERIF_MODE):
// "search" (rapid), "replay" (VERIF_REPLAY = file[,file…]).
func Run[C any](t *testing.T, spec Spec[C]) {
	mode := os.Getenv("VERIF_MODE")
	if mode == "" {
		mode = "search"
	}
	col := newCollector(spec, t.Name(), mode)
	defer col.flush()
	switch mode {
	case "replay":
		for _, file := range strings.Split(os.Getenv("VERIF_REPLAY"), ",") {
			if file == "" {
				continue
			}
			rr := replayResult{File: file}
			var rf ReplayFile
			var c C
			b, err := os.ReadFile(file)
			if err == nil {
				err = json.Unmarshal(b, &rf)
			}
			if err == nil {
				err = json.Unmarshal(rf.Case, &c)
			}
			if err != nil {
				rr.DecodeErr = err.Error()
			} else {
				o := newObs()
				f := guarded(spec, c, o)
				col.res.Evaluations++
				if f != nil {
					rr.Failed = true
					rr.Failure = f
					fmt.Printf("replay %s FAILED: %s: %s\n", file, f.Signature, f.Message)
				} else {
					fmt.Printf("replay %s passed\n", file)
				}
			}
			col.res.Replays = append(col.res.Replays, rr)
		}
	default:
		journal := ""
		if spec.Journal && col.out != "" {
			journal = col.out + ".current"
		}
		t.Run("rapid", func(t *testing.T) {
			rapid.Check(t, func(rt *rapid.T) {
				c := spec.Gen(rt)
				if journal != "" {
					if raw, err := json.Marshal(c); err == nil {
						rf, _ := json.Marshal(ReplayFile{Property: spec.ID, Unit: col.res.Unit, Signature: "process-crash", Case: raw})
						_ = os.WriteFile(journal, rf, 0o644)
					}
				}
				o := newObs()
				f := guarded(spec, c, o)
				if f != nil && strings.HasPrefix(f.Signature, "harness/") {
					// the harness could not set the case up or drive it (time-outs
					// under load, ...): the case is not judged
					o.Inconclusive(f.Signature)
					if col.res.HarnessNotes == nil {
						col.res.HarnessNotes = map[string]string{}
					}
					col.res.HarnessNotes[f.Signature] = f.Message
					f = nil
				}
				col.observe(c, o, f)
				if f != nil {
					rt.Fatalf("%s: %s", f.Signature, f.Message)
				}
			})
		})
		if journal != "" {
			_ = os.Remove(journal)
		}
	}
}

// Exhaustive drives a bounded-exhaustive enumeration through the same
// collector: enum must call yield for every case of the finite space; it stops
// at the first failure (yield returns false).
func Exhaustive[C any](t *testing.T, spec Spec[C], enum func(yield func(C) bool)) {
	col := newCollector(spec, t.Name(), "exhaustive")
	defer col.flush()
	complete := true
	enum(func(c C) bool {
		o := newObs()
		f := guarded(spec, c, o)
		col.observe(c, o, f)
		if f != nil {
			complete = false
			t.Errorf("%s: %s", f.Signature, f.Message)
			return false
		}
		return true
	})
	col.res.Exhaustive = complete
}
