package vfutil

import (
	"encoding/binary"
	"hash/crc32"

	"pgregory.net/rapid"
)

// Reference envelope decoder, written from documentation/envelope_protocol.md
// only (it shares no code with server/protocol):
//
//	bytes 0-3 magic B9 0E 43 B4, byte 4 version (only 0), byte 5 HeaderLen
//	("the offset of the payload"), byte 6 flags (bit 0: CRC-32C enabled),
//	byte 7 MsgType, bytes 8-11 optional CRC-32C (Castagnoli) of the payload
//	"from HeaderLen to the end".
//
// The header is at least 8 bytes, so a HeaderLen below 8 (payload overlapping
// the header) or beyond the end of the data does not describe an envelope.
var EnvelopeMagic = []byte{0xB9, 0x0E, 0x43, 0xB4}

var castagnoli = crc32.MakeTable(crc32.Castagnoli)

// RefEnvelope returns the payload and true iff data is an envelope of the
// wanted type according to the documented format.
func RefEnvelope(data []byte, wantType byte) ([]byte, string) {
	if len(data) < 8 {
		return nil, "short"
	}
	for i := 0; i < 4; i++ {
		if data[i] != EnvelopeMagic[i] {
			return nil, "magic"
		}
	}
	if data[4] != 0 {
		return nil, "version"
	}
	headerLen := int(data[5])
	if headerLen < 8 || headerLen > len(data) {
		return nil, "headerlen"
	}
	if data[7] != wantType {
		return nil, "type"
	}
	payload := data[headerLen:]
	if data[6]&1 != 0 {
		if headerLen != 12 {
			return nil, "crc-headerlen"
		}
		if binary.BigEndian.Uint32(data[8:12]) != crc32.Checksum(payload, castagnoli) {
			return nil, "crc"
		}
	}
	return payload, ""
}

// BuildEnvelope assembles an envelope with the minimal header.
func BuildEnvelope(msgType byte, payload []byte) []byte {
	b := append([]byte{}, EnvelopeMagic...)
	b = append(b, 0, 8, 0, msgType)
	return append(b, payload...)
}

// BuildEnvelopeCRC assembles an envelope carrying the optional CRC-32C.
func BuildEnvelopeCRC(msgType byte, payload []byte) []byte {
	b := append([]byte{}, EnvelopeMagic...)
	b = append(b, 0, 12, 1, msgType)
	var c [4]byte
	binary.BigEndian.PutUint32(c[:], crc32.Checksum(payload, castagnoli))
	b = append(b, c[:]...)
	return append(b, payload...)
}

// GenEnvelopeBytes generates byte strings biased towards the envelope
// structure. payloads supplies plausible payload bodies (e.g. marshalled
// protobufs); random bodies are mixed in.
func GenEnvelopeBytes(t *rapid.T, payloads *rapid.Generator[[]byte]) []byte {
	shape := rapid.IntRange(0, 11).Draw(t, "shape")
	if shape == 11 {
		// CRC flag set, a header longer than 12 bytes, and a CRC that is correct
		// for what follows the header: only HeaderLen == 12 is a valid CRC header
		body := payloads.Draw(t, "crcbody")
		extra := rapid.SliceOfN(rapid.Byte(), 1, 24).Draw(t, "extra")
		b := append([]byte{}, EnvelopeMagic...)
		b = append(b, 0, byte(12+len(extra)), 1, byte(rapid.IntRange(0, 14).Draw(t, "ty")))
		crc := make([]byte, 4)
		binary.BigEndian.PutUint32(crc, crc32.Checksum(body, castagnoli))
		b = append(b, crc...)
		b = append(b, extra...)
		return append(b, body...)
	}
	if shape == 0 {
		// unstructured: short strings dominate
		return rapid.OneOf(
			rapid.SliceOfN(rapid.Byte(), 0, 16),
			rapid.SliceOfN(rapid.Byte(), 0, 2048),
		).Draw(t, "raw")
	}
	var b []byte
	switch rapid.IntRange(0, 9).Draw(t, "magic") {
	case 0:
		m := append([]byte{}, EnvelopeMagic...)
		m[rapid.IntRange(0, 3).Draw(t, "mi")] ^= byte(rapid.IntRange(1, 255).Draw(t, "mx"))
		b = m
	case 1:
		b = rapid.SliceOfN(rapid.Byte(), 4, 4).Draw(t, "mrand")
	default:
		b = append(b, EnvelopeMagic...)
	}
	version := byte(0)
	if rapid.IntRange(0, 9).Draw(t, "vsel") == 0 {
		version = rapid.Byte().Draw(t, "version")
	}
	body := []byte(nil)
	switch rapid.IntRange(0, 5).Draw(t, "body") {
	case 0:
	case 1:
		body = rapid.SliceOfN(rapid.Byte(), 0, 64).Draw(t, "bodyrand")
	default:
		body = payloads.Draw(t, "bodyproto")
		if len(body) > 0 && rapid.IntRange(0, 4).Draw(t, "trunc") == 0 {
			body = body[:rapid.IntRange(0, len(body)-1).Draw(t, "truncat")]
		}
	}
	crcMode := rapid.IntRange(0, 3).Draw(t, "crcmode") // 0 none, 1 correct, 2 wrong, 3 partial
	var crc []byte
	switch crcMode {
	case 1, 2:
		crc = make([]byte, 4)
		c := crc32.Checksum(body, castagnoli)
		if crcMode == 2 {
			c ^= 1 << uint(rapid.IntRange(0, 31).Draw(t, "crcbit"))
		}
		binary.BigEndian.PutUint32(crc, c)
	case 3:
		crc = rapid.SliceOfN(rapid.Byte(), 0, 3).Draw(t, "crcpart")
	}
	total := 8 + len(crc) + len(body)
	var headerLen byte
	switch rapid.IntRange(0, 7).Draw(t, "hlsel") {
	case 0:
		headerLen = rapid.Byte().Draw(t, "hlany")
	case 1:
		headerLen = byte(rapid.IntRange(0, 7).Draw(t, "hllow"))
	case 2:
		headerLen = byte(total) // exactly at the end (if it fits in a byte)
	case 3:
		headerLen = byte(total + rapid.IntRange(1, 3).Draw(t, "hlover"))
	case 4:
		headerLen = byte(rapid.IntRange(9, 16).Draw(t, "hlmid"))
	default:
		headerLen = byte(8 + len(crc))
	}
	var flags byte
	switch rapid.IntRange(0, 4).Draw(t, "flsel") {
	case 0:
		flags = rapid.Byte().Draw(t, "flags")
	case 1:
		flags = 0
	case 2:
		flags = 1
	default:
		if crcMode != 0 {
			flags = 1
		}
	}
	var ty byte
	if rapid.IntRange(0, 7).Draw(t, "tysel") == 0 {
		ty = rapid.Byte().Draw(t, "tyany")
	} else {
		ty = byte(rapid.IntRange(0, 14).Draw(t, "ty"))
	}
	b = append(b, version, headerLen, flags, ty)
	b = append(b, crc...)
	b = append(b, body...)
	if rapid.IntRange(0, 5).Draw(t, "cut") == 0 {
		b = b[:rapid.IntRange(0, len(b)).Draw(t, "cutat")]
	}
	return b
}
