//go:build verif

package server

import (
	"bytes"
	"context"
	"fmt"
	"os"
	"reflect"
	"strconv"
	"strings"
	"sync"
	"testing"
	"time"

	pb "github.com/golang/protobuf/proto"
	client "github.com/liftbridge-io/liftbridge-api/v2/go"
	"github.com/nats-io/nats.go"

	"github.com/liftbridge-io/liftbridge/server/commitlog"
	"github.com/liftbridge-io/liftbridge/server/vfutil"
	"pgregory.net/rapid"
)

// C14 (server level): any byte string arriving on a stream's NATS subject is
// either decoded as exactly the envelope it encodes or stored verbatim.

type c14dCase struct {
	Data    []byte `json:"data"`
	Subject string `json:"subject"`
	Reply   string `json:"reply"`
}

var c14MsgPayloads = rapid.Custom(func(t *rapid.T) []byte {
	m := new(client.Message)
	vfutil.FillProto(t, reflect.ValueOf(m), "msg", 2)
	// the ack inbox is where the server publishes to on behalf of the sender:
	// strings that are not a NATS subject are a class of their own
	if rapid.IntRange(0, 5).Draw(t, "hostile-inbox?") == 0 {
		m.AckInbox = rapid.SampledFrom(c14eHostileInboxes).Draw(t, "hostile-inbox")
	}
	b, err := pb.Marshal(m)
	if err != nil {
		panic(err)
	}
	// header map entries as another encoder may legally write them: without the
	// value field, without the key field, empty (protobuf: an absent field is
	// the default value; appended bytes merge into the message)
	if rapid.IntRange(0, 5).Draw(t, "partial-header-entry?") == 0 {
		n := rapid.IntRange(1, 3).Draw(t, "partial-entries")
		for i := 0; i < n; i++ {
			b = append(b, rapid.SampledFrom(c14PartialHeaderEntries).Draw(t, "partial-entry")...)
		}
	}
	return b
})

func genC14d(t *rapid.T) c14dCase {
	if rapid.IntRange(0, 40).Draw(t, "header-limits?") == 0 {
		// a well-formed publish envelope at the limits of what the commit log's
		// message format can hold: header keys around 32 KiB, many headers
		m := &client.Message{Value: []byte("v"), Headers: map[string][]byte{}}
		switch rapid.IntRange(0, 3).Draw(t, "limit") {
		case 0, 1:
			n := rapid.SampledFrom([]int{32766, 32767, 32768, 40000, 65535, 65536, 70000}).Draw(t, "keylen")
			m.Headers[strings.Repeat("k", n)] = []byte("x")
		case 2:
			n := rapid.SampledFrom([]int{32765, 32766, 32767, 32768, 65533, 65534, 65536}).Draw(t, "nheaders")
			for i := 0; i < n; i++ {
				m.Headers[strconv.Itoa(i)] = nil
			}
		case 3:
			m.Headers["big"] = make([]byte, rapid.SampledFrom([]int{65535, 65536, 1 << 20}).Draw(t, "vallen"))
		}
		b, err := pb.Marshal(m)
		if err != nil {
			panic(err)
		}
		env := append([]byte{}, vfutil.EnvelopeMagic...)
		env = append(env, 0, 8, 0, 0)
		return c14dCase{Data: append(env, b...), Subject: "foo"}
	}
	return c14dCase{Data: vfutil.GenEnvelopeBytes(t, c14MsgPayloads), Subject: "foo", Reply: rapid.SampledFrom([]string{"", "_INBOX.x"}).Draw(t, "reply")}
}

// c14Predict returns what the stored message must be.
func c14Predict(data []byte) (isEnvelope bool, msg *client.Message) {
	payload, why := vfutil.RefEnvelope(data, 0)
	if why != "" {
		return false, nil
	}
	m := new(client.Message)
	if err := pb.Unmarshal(payload, m); err != nil {
		return false, nil
	}
	// an envelope the commit log's message format cannot hold (a header key
	// above 32767 bytes, more than 65533 headers next to subject and reply) is
	// stored verbatim
	if len(m.Headers) > 65533 {
		return false, nil
	}
	for k := range m.Headers {
		if len(k) > 32767 {
			return false, nil
		}
	}
	return true, m
}

func runC14d(c c14dCase, o *vfutil.Obs) *vfutil.Failure {
	got := natsToProtoMessage(&nats.Msg{Subject: c.Subject, Reply: c.Reply, Data: c.Data}, 7)
	isEnv, want := c14Predict(c.Data)
	if len(c.Data) >= 5 && bytes.Equal(c.Data[:4], vfutil.EnvelopeMagic) && c.Data[4] == 0 {
		o.Label("reaches-header-logic")
		if !(isEnv && len(c.Data) >= 8 && c.Data[5] == 8 && c.Data[6] == 0) {
			o.NonTrivial()
		}
	}
	if string(got.Headers["subject"]) != c.Subject || string(got.Headers["reply"]) != c.Reply {
		return vfutil.Failf("C14/subject-reply-headers", "stored subject/reply headers %q/%q, want %q/%q", got.Headers["subject"], got.Headers["reply"], c.Subject, c.Reply)
	}
	if !isEnv {
		o.Label("opaque")
		if !bytes.Equal(got.Value, c.Data) || got.Key != nil || got.AckInbox != "" || got.CorrelationID != "" {
			return vfutil.Failf("C14/opaque-not-verbatim", "% x is not a publish envelope but was stored as key=%q value=% x ackInbox=%q", clipB(c.Data), got.Key, clipB(got.Value), got.AckInbox)
		}
		return nil
	}
	o.Label("envelope")
	if !bytes.Equal(got.Key, want.Key) || !bytes.Equal(got.Value, want.Value) || got.AckInbox != want.AckInbox || got.CorrelationID != want.CorrelationId || got.AckPolicy != want.AckPolicy || got.Offset != want.Offset {
		return vfutil.Failf("C14/envelope-fields", "envelope decoded to key=%q value=%q ack=%q corr=%q policy=%v offset=%d, want %v", got.Key, clipB(got.Value), got.AckInbox, got.CorrelationID, got.AckPolicy, got.Offset, want)
	}
	for k, v := range want.Headers {
		if k == "subject" || k == "reply" {
			continue
		}
		if !bytes.Equal(got.Headers[k], v) {
			return vfutil.Failf("C14/envelope-headers", "header %q = %q, want %q", k, got.Headers[k], v)
		}
	}
	return c14dStore(got, o)
}

// c14dStore does what the leader's message loop does next with the message - it
// appends it to a commit log - and reads it back the way a subscription does:
// no payload may make either step panic (the panic is caught by the harness
// and reported), and what is read back is what was decoded.
var (
	c14dLog   commitlog.CommitLog
	c14dCount int
)

func c14dStore(m *commitlog.Message, o *vfutil.Obs) *vfutil.Failure {
	if c14dLog == nil || c14dCount%2000 == 0 {
		if c14dLog != nil {
			c14dLog.Delete()
		}
		dir, _ := os.MkdirTemp(scratchRoot(), "c14d")
		l, err := commitlog.New(commitlog.Options{Path: dir, MaxSegmentBytes: 64 << 20})
		if err != nil {
			return vfutil.Failf("harness/commitlog", "%v", err)
		}
		c14dLog = l
	}
	c14dCount++
	m.Timestamp = int64(c14dCount)
	offs, err := c14dLog.Append([]*commitlog.Message{m})
	if err != nil {
		return vfutil.Failf("C14/decoded-message-cannot-be-stored", "Append: %v", err)
	}
	c14dLog.SetHighWatermark(offs[0])
	r, err := c14dLog.NewReader(offs[0], false)
	if err != nil {
		return vfutil.Failf("C14/stored-message-cannot-be-read", "NewReader: %v", err)
	}
	ctx, cancel := context.WithTimeout(context.Background(), 20*time.Second)
	defer cancel()
	sm, off, _, _, err := r.ReadMessage(ctx, make([]byte, 28))
	if err != nil || off != offs[0] {
		return vfutil.Failf("C14/stored-message-cannot-be-read", "ReadMessage: offset %d (want %d), %v", off, offs[0], err)
	}
	if !bytes.Equal(sm.Key(), m.Key) || !bytes.Equal(sm.Value(), m.Value) {
		return vfutil.Failf("C14/stored-message-differs", "stored key %q value % x, decoded key %q value % x", sm.Key(), clipB(sm.Value()), m.Key, clipB(m.Value))
	}
	hs := sm.Headers()
	if len(hs) != len(m.Headers) {
		return vfutil.Failf("C14/stored-message-differs/header-count", "%d headers stored, %d decoded", len(hs), len(m.Headers))
	}
	for k, v := range m.Headers {
		if sv, ok := hs[k]; !ok || !bytes.Equal(sv, v) {
			return vfutil.Failf("C14/stored-message-differs/header", "header %q: stored %q (present %v), decoded %q", clipB([]byte(k)), clipB(sv), ok, clipB(v))
		}
	}
	if len(m.Headers) > 2 {
		o.Label("stored-with-headers")
	}
	return nil
}

func TestVerifC14d(t *testing.T) {
	vfutil.Run(t, vfutil.Spec[c14dCase]{ID: "C14", Gen: genC14d, Run: runC14d})
}

// ---- C14e: the same bytes published to a live stream subject

type c14eCase struct {
	Payloads [][]byte `json:"payloads"`
	// Subjects[i] selects the last token of the NATS subject payload i is
	// published to (the stream's subject ends in a wildcard): 0 is "x", the
	// others are byte strings that are not valid UTF-8
	Subjects []int `json:"subjects,omitempty"`
}

var c14eSubjectTokens = []string{"x", "\xff", "\xc3\x28", "a\xe2\x82", "\x80\x80"}

// c14eMaxBytes is clustering.replication.max.bytes of the C14e server: payloads
// above it are refused (C04), and the refusal goes to the sender's ack inbox.
const c14eMaxBytes = 4096

var c14eHostileInboxes = []string{"a\r\nPING\r\n", "x\ny", " ", "a b 5", "a\tb", "a..b", ">", "\x00", "_INBOX.\r"}

func genC14e(t *rapid.T) c14eCase {
	var c c14eCase
	n := rapid.IntRange(1, 10).Draw(t, "n")
	for i := 0; i < n; i++ {
		if rapid.IntRange(0, 5).Draw(t, "oversize?") == 0 {
			// a well-formed publish envelope above the size limit; its ack inbox
			// is absent, a subject, or not a subject
			m := &client.Message{Value: make([]byte, rapid.IntRange(c14eMaxBytes-40, c14eMaxBytes+2000).Draw(t, "big")),
				AckInbox: rapid.SampledFrom(append([]string{"", "_INBOX.ok"}, c14eHostileInboxes...)).Draw(t, "big-inbox")}
			b, err := pb.Marshal(m)
			if err != nil {
				panic(err)
			}
			env := append([]byte{}, vfutil.EnvelopeMagic...)
			env = append(env, 0, 8, 0, 0)
			c.Payloads = append(c.Payloads, append(env, b...))
			continue
		}
		if rapid.IntRange(0, 5).Draw(t, "hostile-subject?") == 0 {
			// a well-formed publish envelope that asks for an acknowledgement,
			// published to a subject whose last token is not valid UTF-8 (the
			// acknowledgement names the subject)
			m := &client.Message{Value: []byte("hs"), AckInbox: "_INBOX.ok", AckPolicy: client.AckPolicy(rapid.IntRange(0, 1).Draw(t, "hs-policy")), CorrelationId: "c"}
			b, err := pb.Marshal(m)
			if err != nil {
				panic(err)
			}
			env := append([]byte{}, vfutil.EnvelopeMagic...)
			env = append(env, 0, 8, 0, 0)
			for len(c.Subjects) < len(c.Payloads) {
				c.Subjects = append(c.Subjects, 0)
			}
			c.Subjects = append(c.Subjects, rapid.IntRange(1, len(c14eSubjectTokens)-1).Draw(t, "hs-token"))
			c.Payloads = append(c.Payloads, append(env, b...))
			continue
		}
		if rapid.IntRange(0, 4).Draw(t, "partial-headers?") == 0 {
			// a well-formed publish envelope whose header map has entries without a
			// value or without a key (see c14MsgPayloads)
			m := &client.Message{Value: []byte(rapid.StringMatching(`[a-z]{0,6}`).Draw(t, "pv")), Key: []byte(rapid.StringMatching(`[a-z]{0,3}`).Draw(t, "pk"))}
			b, err := pb.Marshal(m)
			if err != nil {
				panic(err)
			}
			n := rapid.IntRange(1, 3).Draw(t, "partial-entries")
			for i := 0; i < n; i++ {
				b = append(b, rapid.SampledFrom(c14PartialHeaderEntries).Draw(t, "partial-entry")...)
			}
			env := append([]byte{}, vfutil.EnvelopeMagic...)
			env = append(env, 0, 8, 0, 0)
			c.Payloads = append(c.Payloads, append(env, b...))
			continue
		}
		c.Payloads = append(c.Payloads, vfutil.GenEnvelopeBytes(t, c14MsgPayloads))
	}
	return c
}

var c14PartialHeaderEntries = [][]byte{
	{0x4a, 0x03, 0x0a, 0x01, 'a'},             // key "a", no value
	{0x4a, 0x00},                              // neither
	{0x4a, 0x03, 0x12, 0x01, 'b'},             // value "b", no key
	{0x4a, 0x05, 0x0a, 0x01, 'c', 0x12, 0x00}, // key "c", explicit empty value
}

var (
	c14eOnce sync.Once
	c14eL3   *vfL3
	c14eErr  error
)

func c14eSetup() (*vfL3, error) {
	c14eOnce.Do(func() {
		c14eL3, c14eErr = newVFL3("c14e", func(c *Config) {
			c.BatchMaxTime = 0
			c.Clustering.ReplicationMaxBytes = c14eMaxBytes
		})
	})
	return c14eL3, c14eErr
}

func runC14e(c c14eCase, o *vfutil.Obs) *vfutil.Failure {
	l, err := c14eSetup()
	if err != nil {
		return vfutil.Failf("harness/setup", "%v", err)
	}
	name := l3Name("raw")
	a := l.s.api
	ctx, cancel := ctxFor("", 20*time.Second)
	_, err = a.CreateStream(ctx, &client.CreateStreamRequest{Name: name, Subject: name + ".*", Partitions: 1})
	cancel()
	if err != nil {
		return vfutil.Failf("harness/create", "%v", err)
	}
	defer func() {
		ctx, cancel := ctxFor("", 20*time.Second)
		a.DeleteStream(ctx, &client.DeleteStreamRequest{Name: name})
		cancel()
	}()
	if err := waitLeader(l.s, name); err != nil {
		return vfutil.Failf("harness/leader", "%v", err)
	}
	nc, err := nats.Connect(l.ns.ClientURL())
	if err != nil {
		return vfutil.Failf("harness/nats", "%v", err)
	}
	defer nc.Close()
	for i, d := range c.Payloads {
		tok := c14eSubjectTokens[0]
		if i < len(c.Subjects) {
			tok = c14eSubjectTokens[c.Subjects[i]%len(c14eSubjectTokens)]
			if c.Subjects[i] != 0 {
				o.Label("subject-not-utf8")
			}
		}
		if err := nc.Publish(name+"."+tok, d); err != nil {
			return vfutil.Failf("harness/nats-publish", "%v", err)
		}
	}
	nc.Flush()
	// an authorised sentinel through the API marks the end
	ctx, cancel = ctxFor("", 20*time.Second)
	_, err = a.Publish(ctx, &client.PublishRequest{Stream: name, Value: []byte("the-end"), AckPolicy: client.AckPolicy_ALL})
	cancel()
	if err != nil {
		return vfutil.Failf("C14/server-stopped-answering", "publish after %d raw payloads failed: %v", len(c.Payloads), err)
	}
	sctx, scancel := ctxFor("", 0)
	defer scancel()
	sub, err := a.SubscribeInternal(sctx, &client.SubscribeRequest{Stream: name, StartPosition: client.StartPosition_EARLIEST})
	if err != nil {
		return vfutil.Failf("C14/server-stopped-answering", "subscribe failed: %v", err)
	}
	defer sub.Close()
	for i, d := range c.Payloads {
		if len(d) > c14eMaxBytes {
			// refused, not stored
			o.Label("above-replication-max-bytes")
			continue
		}
		isEnv, want := c14Predict(d)
		select {
		case m := <-sub.Messages():
			if !isEnv {
				if !bytes.Equal(m.Value, d) {
					return vfutil.Failf("C14/opaque-not-verbatim", "payload %d (% x) is not an envelope but the subscriber received %d bytes % x", i, clipB(d), len(m.Value), clipB(m.Value))
				}
			} else {
				o.Label("envelope-over-nats")
				if !bytes.Equal(m.Value, want.Value) || !bytes.Equal(m.Key, want.Key) {
					return vfutil.Failf("C14/envelope-fields", "payload %d: subscriber received key %q value %q, the envelope carries %q / %q", i, m.Key, clipB(m.Value), want.Key, clipB(want.Value))
				}
			}
		case st := <-sub.Errors():
			return vfutil.Failf("C14/subscriber-error", "payload %d: %v", i, st.Err())
		case <-time.After(20 * time.Second):
			return vfutil.Failf("C14/payload-lost/bounded-liveness(20s)", "payload %d of %d (% x) never reached the subscriber", i, len(c.Payloads), clipB(d))
		}
	}
	ctx, cancel = ctxFor("", 10*time.Second)
	_, err = a.FetchMetadata(ctx, &client.FetchMetadataRequest{})
	cancel()
	if err != nil {
		return vfutil.Failf("C14/server-stopped-answering", "FetchMetadata failed: %v", err)
	}
	o.NonTrivial()
	return nil
}

func TestVerifC14e(t *testing.T) {
	defer func() {
		if c14eL3 != nil {
			c14eL3.close()
		}
	}()
	vfutil.Run(t, vfutil.Spec[c14eCase]{ID: "C14", Gen: genC14e, Run: runC14e, Journal: true})
}

var _ = fmt.Sprintf
