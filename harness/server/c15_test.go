//go:build verif

package server

import (
	"context"
	"fmt"
	"os"
	"path/filepath"
	"reflect"
	"sort"
	"strings"
	"sync"
	"syscall"
	"testing"
	"time"

	"github.com/casbin/casbin/v2"
	client "github.com/liftbridge-io/liftbridge-api/v2/go"

	proto "github.com/liftbridge-io/liftbridge/server/protocol"
	"github.com/liftbridge-io/liftbridge/server/vfutil"
	"pgregory.net/rapid"
)

// C15: with ACLs on, an unauthorised call is refused and changes nothing.

var c15Actions = []string{"CreateStream", "DeleteStream", "PauseStream", "SetStreamReadonly", "Subscribe", "Publish", "PublishToSubject",
	"FetchMetadata", "FetchPartitionMetadata", "SetCursor", "FetchCursor"}
var c15Resources = []string{"foo", "bar", "*", "__cursors", "n1"}
var c15Clients = []string{"client1", "client2"}

type c15Call struct {
	Kind   string `json:"kind"`
	Client int    `json:"client"`
	Res    int    `json:"res"` // 0 foo, 1 bar
	Arg    int    `json:"arg,omitempty"`
	Batch  []int  `json:"batch,omitempty"` // publish-async: resources of the batch
}

type c15Step struct {
	Policy []int     `json:"policy,omitempty"` // indexes into the policy universe; set => rewrite CSV + SIGHUP
	Reload bool      `json:"reload,omitempty"`
	Call   *c15Call  `json:"call,omitempty"`
}

type c15Case struct {
	Policy []int     `json:"policy"`
	Steps  []c15Step `json:"steps"`
}

type c15Entry struct{ c, r, a string }

func c15Universe() []c15Entry {
	var u []c15Entry
	for _, c := range c15Clients {
		for _, r := range c15Resources {
			for _, a := range c15Actions {
				u = append(u, c15Entry{c, r, a})
			}
		}
	}
	return u
}

var c15Kinds = []string{"create", "delete", "pause", "readonly", "make-writable", "publish", "publish-paused", "publish-subject", "publish-async",
	"subscribe", "subscribe-resume", "subscribe-group-takeover", "fetch-metadata", "fetch-partition-metadata", "set-cursor", "fetch-cursor",
	"join-group", "leave-group", "fetch-assignments", "report-coordinator"}

func genC15Policy(t *rapid.T, label string) []int {
	u := c15Universe()
	var p []int
	dens := rapid.SampledFrom([]int{2, 3, 5}).Draw(t, label+"density")
	for i := range u {
		if rapid.IntRange(0, dens-1).Draw(t, label) == 0 {
			p = append(p, i)
		}
	}
	return p
}

func genC15(t *rapid.T) c15Case {
	c := c15Case{Policy: genC15Policy(t, "p0")}
	n := rapid.IntRange(3, 14).Draw(t, "nsteps")
	for i := 0; i < n; i++ {
		if rapid.IntRange(0, 7).Draw(t, "reload?") == 0 {
			c.Steps = append(c.Steps, c15Step{Reload: true, Policy: genC15Policy(t, "pn")})
			continue
		}
		call := &c15Call{Kind: rapid.SampledFrom(c15Kinds).Draw(t, "kind"), Client: rapid.SampledFrom([]int{0, 0, 1, 1, 2}).Draw(t, "client"), Res: rapid.IntRange(0, 1).Draw(t, "res"), Arg: rapid.IntRange(0, 50).Draw(t, "arg")}
		if call.Kind == "publish-async" {
			for j, m := 0, rapid.IntRange(1, 3).Draw(t, "nb"); j < m; j++ {
				call.Batch = append(call.Batch, rapid.IntRange(0, 1).Draw(t, "br"))
			}
		}
		c.Steps = append(c.Steps, c15Step{Call: call})
	}
	return c
}

// ---- shard-wide server

type c15World struct {
	l      *vfL3
	dir    string
	policy string
	enf    *casbin.Enforcer
	gen    int
	seq    int
}

var (
	c15Once sync.Once
	c15W    *c15World
	c15Err  error
)

func c15Setup() (*c15World, error) {
	c15Once.Do(func() {
		model := filepath.Join(os.Getenv("VERIF_REPO"), "server", "configs", "authz", "model.conf")
		w := &c15World{}
		l, err := newVFL3("c15", func(c *Config) {
			c.CursorsStream.Partitions = 1
			c.CursorsStream.AutoPauseTime = 0
			// the authorisation settings as a configuration file would give them;
			// the policy file exists before the server starts. (Without TLS
			// certificates Start does not build the enforcer itself: the harness
			// installs one over the same two files below.)
			c.TLSClientAuthz = true
			c.TLSClientAuthzModel = model
			c.TLSClientAuthzPolicy = filepath.Join(c.DataDir, "policy.csv")
			os.MkdirAll(c.DataDir, 0o755)
			os.WriteFile(c.TLSClientAuthzPolicy, []byte(w.csv(nil)), 0o644)
		})
		if err != nil {
			c15Err = err
			return
		}
		w.l, w.dir = l, l.dir
		w.policy = filepath.Join(l.dir, "policy.csv")
		if _, err := os.Stat(w.policy); err != nil {
			c15Err = err
			return
		}
		enf, err := casbin.NewEnforcer(model, w.policy)
		if err != nil {
			c15Err = fmt.Errorf("casbin: %v", err)
			return
		}
		if err := enf.LoadPolicy(); err != nil {
			c15Err = err
			return
		}
		w.enf = enf
		l.s.authzEnforcer = &authzEnforcer{enforcer: enf}
		l.s.config.TLSClientAuthz = true
		c15W = w
		if err := w.restoreBase(); err != nil {
			c15Err = err
		}
	})
	return c15W, c15Err
}

// csv renders the policy file: the admin identity of the harness can do
// everything; a generation sentinel lets the harness see that a reload happened.
func (w *c15World) csv(policy []int) string {
	var b strings.Builder
	for _, r := range append(append([]string{}, c15Resources...), "foo.1") {
		for _, a := range c15Actions {
			fmt.Fprintf(&b, "p, admin, %s, %s\n", r, a)
		}
	}
	u := c15Universe()
	for _, i := range policy {
		e := u[i%len(u)]
		fmt.Fprintf(&b, "p, %s, %s, %s\n", e.c, e.r, e.a)
	}
	fmt.Fprintf(&b, "p, sentinel, gen%d, Reloaded\n", w.gen)
	return b.String()
}

func (w *c15World) reload(policy []int) error {
	w.gen++
	if err := os.WriteFile(w.policy, []byte(w.csv(policy)), 0o644); err != nil {
		return err
	}
	if err := syscall.Kill(os.Getpid(), syscall.SIGHUP); err != nil {
		return err
	}
	deadline := time.Now().Add(20 * time.Second)
	for time.Now().Before(deadline) {
		w.l.s.authzEnforcer.authzLock.RLock()
		ok, _ := w.enf.Enforce("sentinel", fmt.Sprintf("gen%d", w.gen), "Reloaded")
		w.l.s.authzEnforcer.authzLock.RUnlock()
		if ok {
			return nil
		}
		time.Sleep(200 * time.Microsecond)
	}
	return fmt.Errorf("policy reload (SIGHUP) did not take effect within 20s")
}

func (w *c15World) api() *apiServer { return w.l.s.api }

// restoreBase brings the server back to the base state with the admin identity:
// streams foo and bar exist (1 partition), running, writable; n1 does not exist.
func (w *c15World) restoreBase() error {
	a := w.api()
	for _, name := range []string{"foo", "bar"} {
		ctx, cancel := ctxFor("admin", 10*time.Second)
		if w.l.s.metadata.GetStream(name) == nil {
			if _, err := a.CreateStream(ctx, &client.CreateStreamRequest{Name: name, Subject: name, Partitions: 1}); err != nil {
				cancel()
				return fmt.Errorf("restore: create %s: %v", name, err)
			}
		}
		p := w.l.s.metadata.GetPartition(name, 0)
		if p != nil && p.IsPaused() {
			if st := w.l.s.metadata.ResumeStream(ctx, &proto.ResumeStreamOp{Stream: name, Partitions: []int32{0}}); st != nil {
				cancel()
				return fmt.Errorf("restore: resume %s: %v", name, st.Err())
			}
		}
		p = w.l.s.metadata.GetPartition(name, 0)
		if p != nil && p.IsReadonly() {
			if _, err := a.SetStreamReadonly(ctx, &client.SetStreamReadonlyRequest{Name: name, Readonly: false}); err != nil {
				cancel()
				return fmt.Errorf("restore: writable %s: %v", name, err)
			}
		}
		cancel()
	}
	if w.l.s.metadata.GetStream("n1") != nil {
		ctx, cancel := ctxFor("admin", 10*time.Second)
		defer cancel()
		if _, err := a.DeleteStream(ctx, &client.DeleteStreamRequest{Name: "n1"}); err != nil {
			return fmt.Errorf("restore: delete n1: %v", err)
		}
	}
	// wait for the partition leaders to run
	deadline := time.Now().Add(20 * time.Second)
	for time.Now().Before(deadline) {
		ok := true
		for _, name := range []string{"foo", "bar"} {
			p := w.l.s.metadata.GetPartition(name, 0)
			if p == nil || !p.IsLeader() {
				ok = false
			}
		}
		if ok {
			return nil
		}
		time.Sleep(time.Millisecond)
	}
	return fmt.Errorf("restore: partition leaders not running")
}

// digest of everything a denied call must leave untouched.
type c15Digest struct {
	Streams  []string
	Flags    map[string]string
	Messages map[string][]string
	Cursors  map[string]int64
}

func (w *c15World) digest() c15Digest {
	d := c15Digest{Flags: map[string]string{}, Messages: map[string][]string{}, Cursors: map[string]int64{}}
	for _, st := range w.l.s.metadata.GetStreams() {
		if st.GetName() == cursorsStream {
			continue
		}
		d.Streams = append(d.Streams, st.GetName())
		for id, p := range st.GetPartitions() {
			k := fmt.Sprintf("%s/%d", st.GetName(), id)
			ro := "closed"
			if !p.IsPaused() {
				ro = fmt.Sprint(p.IsReadonly())
				d.Messages[k] = c06ReadValues(p.log)
			}
			d.Flags[k] = fmt.Sprintf("paused=%v readonly=%s", p.IsPaused(), ro)
		}
	}
	sort.Strings(d.Streams)
	for _, r := range []string{"foo", "bar"} {
		for _, id := range []string{"cur0", "cur1"} {
			ctx, cancel := ctxFor("admin", 10*time.Second)
			off, st := w.l.s.cursors.GetCursor(ctx, r, id, 0)
			cancel()
			if st != nil {
				off = -99
			}
			d.Cursors[r+"/"+id] = off
		}
	}
	return d
}

// sentinelPublish publishes an authorised marker with AckPolicy ALL on the same
// partition and connection: anything published before it is in the log by now.
func (w *c15World) sentinelPublish(stream string) error {
	p := w.l.s.metadata.GetPartition(stream, 0)
	if p == nil || p.IsPaused() || p.IsReadonly() {
		return nil
	}
	w.seq++
	ctx, cancel := ctxFor("admin", 10*time.Second)
	defer cancel()
	_, err := w.api().Publish(ctx, &client.PublishRequest{Stream: stream, Value: []byte(fmt.Sprintf("sentinel-%d", w.seq)), AckPolicy: client.AckPolicy_ALL})
	return err
}

func c15Allowed(policy map[c15Entry]bool, c, r, a string) bool { return policy[c15Entry{c, r, a}] }

func isAuthzError(err error) bool {
	return err != nil && (strings.Contains(err.Error(), "not authorized") || strings.Contains(err.Error(), "Failed to retrieve client ID"))
}

func runC15(c c15Case, o *vfutil.Obs) *vfutil.Failure {
	w, err := c15Setup()
	if err != nil {
		o.Inconclusive("setup: " + err.Error())
		return vfutil.Failf("harness/setup", "%v", err)
	}
	if err := w.reload(c.Policy); err != nil {
		return vfutil.Failf("C15/reload-not-effective/bounded-liveness(20s)", "%v", err)
	}
	u := c15Universe()
	mkPolicy := func(idx []int) map[c15Entry]bool {
		m := map[c15Entry]bool{}
		for _, i := range idx {
			m[u[i%len(u)]] = true
		}
		return m
	}
	policy := mkPolicy(c.Policy)
	var hist []string
	reloaded := false
	for si, step := range c.Steps {
		if step.Reload {
			if err := w.reload(step.Policy); err != nil {
				return vfutil.Failf("C15/reload-not-effective/bounded-liveness(20s)", "%v", err)
			}
			policy = mkPolicy(step.Policy)
			hist = append(hist, "reload")
			reloaded = true
			o.Label("reload")
			continue
		}
		call := step.Call
		if err := w.restoreBase(); err != nil {
			return vfutil.Failf("harness/restore", "history %v: %v", hist, err)
		}
		// (client 2 is a caller without a verified certificate: the interceptor
		// leaves its context without a client id, and it is allowed nothing)
		cl := append(append([]string{}, c15Clients...), "")[call.Client%3]
		if cl == "" {
			o.Label("caller-without-identity")
		}
		res := []string{"foo", "bar"}[call.Res%2]
		a := w.api()
		w.seq++
		val := fmt.Sprintf("msg-%s-%d", cl, w.seq)
		desc := fmt.Sprintf("step %d: %s by %s on %s", si, call.Kind, cl, res)
		hist = append(hist, fmt.Sprintf("%s(%s,%s)", call.Kind, cl, res))

		// ---- per-kind preparation (as admin), expected permission, and the call itself
		var (
			allowed     bool
			callErr     error
			enforced    = true // false: no documented policy action for this RPC
			adminSub    *subscription
			adminCancel context.CancelFunc
			sideEffect  string
			asyncDenied  []string
			asyncAllowed = map[string]bool{}
			asyncStream  *fakePublishAsyncStream
		)
		prepPause := func() *vfutil.Failure {
			ctx, cancel := ctxFor("admin", 10*time.Second)
			defer cancel()
			if _, err := a.PauseStream(ctx, &client.PauseStreamRequest{Name: res}); err != nil {
				return vfutil.Failf("harness/prep", "pause %s: %v", res, err)
			}
			return nil
		}
		switch call.Kind {
		case "publish-paused", "subscribe-resume":
			if f := prepPause(); f != nil {
				return f
			}
		case "make-writable":
			// the stream is read-only (set by the admin); the client tries to make it writable
			ctx, cancel := ctxFor("admin", 10*time.Second)
			_, err := a.SetStreamReadonly(ctx, &client.SetStreamReadonlyRequest{Name: res, Readonly: true})
			cancel()
			if err != nil {
				return vfutil.Failf("harness/prep", "read-only %s: %v", res, err)
			}
		case "subscribe-group-takeover":
			ctx, cancel := ctxFor("admin", 0)
			adminCancel = cancel
			sub, err := a.SubscribeInternal(ctx, &client.SubscribeRequest{Stream: res, StartPosition: client.StartPosition_NEW_ONLY,
				Consumer: &client.Consumer{GroupId: fmt.Sprintf("grp%d", w.seq), ConsumerId: "admin-consumer", GroupEpoch: 1}})
			if err != nil {
				cancel()
				return vfutil.Failf("harness/prep", "admin group subscription: %v", err)
			}
			adminSub = sub
		}
		// flush fire-and-forget publishes of earlier (allowed) calls: an authorised
		// AckPolicy-ALL sentinel on the same connection orders them before it
		for _, r := range []string{"foo", "bar"} {
			if err := w.sentinelPublish(r); err != nil {
				return vfutil.Failf("harness/sentinel", "%s: %v", desc, err)
			}
		}
		before := w.digest()
		ctx, cancel := ctxFor(cl, 5*time.Second)
		switch call.Kind {
		case "create":
			allowed = c15Allowed(policy, cl, "n1", "CreateStream")
			// the permission is about the stream name; the subject may be that of another stream
			_, callErr = a.CreateStream(ctx, &client.CreateStreamRequest{Name: "n1", Subject: []string{"n1", "foo", "bar"}[call.Arg%3], Partitions: 1})
		case "delete":
			allowed = c15Allowed(policy, cl, res, "DeleteStream")
			_, callErr = a.DeleteStream(ctx, &client.DeleteStreamRequest{Name: res})
		case "pause":
			allowed = c15Allowed(policy, cl, res, "PauseStream")
			_, callErr = a.PauseStream(ctx, &client.PauseStreamRequest{Name: res, ResumeAll: call.Arg%2 == 1})
		case "make-writable":
			allowed = c15Allowed(policy, cl, res, "SetStreamReadonly")
			_, callErr = a.SetStreamReadonly(ctx, &client.SetStreamReadonlyRequest{Name: res, Readonly: false})
		case "readonly":
			allowed = c15Allowed(policy, cl, res, "SetStreamReadonly")
			_, callErr = a.SetStreamReadonly(ctx, &client.SetStreamReadonlyRequest{Name: res, Readonly: true})
		case "publish", "publish-paused":
			allowed = c15Allowed(policy, cl, res, "Publish")
			_, callErr = a.Publish(ctx, &client.PublishRequest{Stream: res, Value: []byte(val), AckPolicy: []client.AckPolicy{client.AckPolicy_LEADER, client.AckPolicy_NONE, client.AckPolicy_ALL}[call.Arg%3]})
		case "publish-subject":
			allowed = c15Allowed(policy, cl, res, "PublishToSubject")
			_, callErr = a.PublishToSubject(ctx, &client.PublishToSubjectRequest{Subject: res, Value: []byte(val), AckPolicy: []client.AckPolicy{client.AckPolicy_LEADER, client.AckPolicy_NONE, client.AckPolicy_ALL}[call.Arg%3]})
		case "publish-async":
			sctx, scancel := ctxFor(cl, 0)
			asyncStream = &fakePublishAsyncStream{fakeServerStream: fakeServerStream{ctx: sctx}, in: make(chan *client.PublishRequest, 8)}
			allowed = true
			for j, br := range call.Batch {
				r := []string{"foo", "bar"}[br%2]
				corr := fmt.Sprintf("%s-%d", val, j)
				// ack policies vary: fire-and-forget messages get no response at all
				pol := []client.AckPolicy{client.AckPolicy_LEADER, client.AckPolicy_NONE, client.AckPolicy_ALL}[(call.Arg+j)%3]
				asyncStream.in <- &client.PublishRequest{Stream: r, Value: []byte(corr), AckPolicy: pol, CorrelationId: corr}
				if !c15Allowed(policy, cl, r, "Publish") {
					allowed = false
					asyncDenied = append(asyncDenied, corr+"@"+r)
				} else {
					asyncAllowed[corr] = true
				}
			}
			close(asyncStream.in)
			callErr = a.PublishAsync(asyncStream)
			scancel()
		case "subscribe", "subscribe-resume", "subscribe-group-takeover":
			allowed = c15Allowed(policy, cl, res, "Subscribe")
			sctx, scancel := ctxFor(cl, 0)
			fs := &fakeSubscribeStream{fakeServerStream: fakeServerStream{ctx: sctx}}
			req := &client.SubscribeRequest{Stream: res, StartPosition: client.StartPosition_EARLIEST}
			if call.Kind == "subscribe-resume" {
				req.Resume = true
			}
			if call.Kind == "subscribe-group-takeover" {
				req.Consumer = &client.Consumer{GroupId: fmt.Sprintf("grp%d", w.seq), ConsumerId: "intruder", GroupEpoch: 2}
			}
			done := make(chan error, 1)
			go func() { done <- a.Subscribe(req, fs) }()
			select {
			case callErr = <-done:
			case <-time.After(60 * time.Millisecond):
				// the subscription is running (it was accepted), or the server is
				// slow: the answer to the cancelled call tells which (a refusal
				// names the missing authorisation, an accepted subscription ends
				// with the context)
				scancel()
				select {
				case e := <-done:
					if e != nil && strings.Contains(e.Error(), "not authorized") {
						callErr = e
					}
				case <-time.After(20 * time.Second):
					return vfutil.Failf("harness/subscribe-stuck", "%s", desc)
				}
				callErr = nil
			}
			scancel()
			if !allowed {
				for _, m := range fs.received() {
					if len(m.Value) > 0 || m.Offset != 0 || m.Stream != "" {
						sideEffect = fmt.Sprintf("a message (offset %d) was delivered to the unauthorised subscriber", m.Offset)
					}
				}
			}
		case "fetch-metadata":
			allowed = c15Allowed(policy, cl, "*", "FetchMetadata")
			_, callErr = a.FetchMetadata(ctx, &client.FetchMetadataRequest{})
		case "fetch-partition-metadata":
			allowed = c15Allowed(policy, cl, res, "FetchPartitionMetadata")
			_, callErr = a.FetchPartitionMetadata(ctx, &client.FetchPartitionMetadataRequest{Stream: res, Partition: 0})
		case "set-cursor":
			// SetCursor publishes to the cursors stream with the caller's identity (documented)
			allowed = c15Allowed(policy, cl, res, "SetCursor") && c15Allowed(policy, cl, "__cursors", "Publish")
			_, callErr = a.SetCursor(ctx, &client.SetCursorRequest{Stream: res, Partition: 0, CursorId: fmt.Sprintf("cur%d", call.Arg%2), Offset: int64(call.Arg)})
		case "fetch-cursor":
			allowed = c15Allowed(policy, cl, res, "FetchCursor")
			_, callErr = a.FetchCursor(ctx, &client.FetchCursorRequest{Stream: res, Partition: 0, CursorId: fmt.Sprintf("cur%d", call.Arg%2)})
		case "join-group":
			enforced = false
			_, callErr = a.JoinConsumerGroup(ctx, &client.JoinConsumerGroupRequest{GroupId: "cg", ConsumerId: cl, Streams: []string{res}})
		case "leave-group":
			enforced = false
			_, callErr = a.LeaveConsumerGroup(ctx, &client.LeaveConsumerGroupRequest{GroupId: "cg", ConsumerId: cl})
		case "fetch-assignments":
			enforced = false
			_, callErr = a.FetchConsumerGroupAssignments(ctx, &client.FetchConsumerGroupAssignmentsRequest{GroupId: "cg", ConsumerId: cl})
		case "report-coordinator":
			enforced = false
			_, callErr = a.ReportConsumerGroupCoordinator(ctx, &client.ReportConsumerGroupCoordinatorRequest{GroupId: "cg", ConsumerId: cl, Coordinator: "a"})
		default:
			cancel()
			return vfutil.Failf("harness/kind", "unknown call kind %q (new API method without a driver?)", call.Kind)
		}
		cancel()
		o.Label("call:" + call.Kind)
		holderClosed := false
		if adminSub != nil {
			select {
			case <-adminSub.Closed():
				holderClosed = true
			default:
			}
		}
		if !enforced {
			if adminCancel != nil {
				adminCancel()
			}
			continue
		}
		if allowed {
			o.Label("allowed")
			if isAuthzError(callErr) {
				return vfutil.Failf("C15/allowed-call-refused", "%s: the policy allows it but it was refused: %v (history %v)", desc, callErr, hist)
			}
			if adminSub != nil {
				adminSub.Close()
				adminCancel()
			}
			continue
		}
		o.Label("denied")
		earlyEffect := call.Kind == "subscribe-resume" || call.Kind == "subscribe-group-takeover" || call.Kind == "publish-async" || call.Kind == "publish-paused" || call.Kind == "subscribe"
		if earlyEffect || reloaded {
			o.NonTrivial()
		}
		// (1) the call is refused
		if call.Kind == "publish-async" {
			resp := asyncStream.responses()
			for _, d := range asyncDenied {
				corr := strings.SplitN(d, "@", 2)[0]
				found := false
				for _, r := range resp {
					if r.CorrelationId == corr && r.AsyncError != nil && r.AsyncError.Code == client.PublishAsyncError_PERMISSION_DENIED {
						found = true
					}
				}
				if !found {
					return vfutil.Failf("C15/denied-call-not-refused/publish-async", "%s: no PERMISSION_DENIED async error for %s (responses %v)", desc, d, resp)
				}
			}
		} else if callErr == nil {
			return vfutil.Failf("C15/denied-call-not-refused/"+call.Kind, "%s: the policy does not allow it but the call succeeded (history %v)", desc, hist)
		}
		// (2) and has no effect
		if sideEffect != "" {
			return vfutil.Failf("C15/denied-call-had-effect/"+call.Kind, "%s: %s", desc, sideEffect)
		}
		if holderClosed {
			return vfutil.Failf("C15/denied-call-had-effect/existing-subscription-cancelled", "%s: the refused group subscriber cancelled the existing subscription of the group", desc)
		}
		for _, r := range []string{"foo", "bar"} {
			if err := w.sentinelPublish(r); err != nil {
				return vfutil.Failf("harness/sentinel", "%s: %v", desc, err)
			}
		}
		after := w.digest()
		// the sentinels are the harness's own messages
		strip := func(d c15Digest) c15Digest {
			for k, ms := range d.Messages {
				var out []string
				for _, m := range ms {
					if !strings.HasPrefix(m, "sentinel-") && !asyncAllowed[m] {
						out = append(out, m)
					}
				}
				d.Messages[k] = out
			}
			return d
		}
		b2, a2 := strip(before), strip(after)
		if !reflect.DeepEqual(b2, a2) {
			cls := "state"
			switch {
			case !reflect.DeepEqual(b2.Streams, a2.Streams):
				cls = "stream-set"
			case !reflect.DeepEqual(b2.Flags, a2.Flags):
				cls = "paused-or-readonly-flag"
			case !reflect.DeepEqual(b2.Messages, a2.Messages):
				cls = "message-stored"
			case !reflect.DeepEqual(b2.Cursors, a2.Cursors):
				cls = "cursor-stored"
			}
			return vfutil.Failf("C15/denied-call-had-effect/"+cls+"/"+call.Kind, "%s was refused (%v) but changed the server state:\nbefore %+v\nafter  %+v", desc, callErr, b2, a2)
		}
		if adminSub != nil {
			adminSub.Close()
			adminCancel()
		}
	}
	return nil
}

func TestVerifC15(t *testing.T) {
	// every method of the client API must have a driver above
	want := map[string]bool{"CreateStream": true, "DeleteStream": true, "PauseStream": true, "SetStreamReadonly": true, "Subscribe": true,
		"FetchMetadata": true, "FetchPartitionMetadata": true, "Publish": true, "PublishAsync": true, "PublishToSubject": true, "SetCursor": true,
		"FetchCursor": true, "JoinConsumerGroup": true, "LeaveConsumerGroup": true, "FetchConsumerGroupAssignments": true, "ReportConsumerGroupCoordinator": true}
	it := reflect.TypeOf((*client.APIServer)(nil)).Elem()
	for i := 0; i < it.NumMethod(); i++ {
		if n := it.Method(i).Name; !want[n] && !strings.HasPrefix(n, "mustEmbed") {
			t.Fatalf("INCONCLUSIVE: API method %s has no driver in the C15 harness", n)
		}
	}
	defer func() {
		if c15W != nil {
			c15W.l.close()
		}
	}()
	vfutil.Run(t, vfutil.Spec[c15Case]{ID: "C15", Gen: genC15, Run: runC15, Journal: true})
}
