//go:build verif

package server

import (
	"fmt"
	"math"
	"sync"
	"testing"
	"time"

	client "github.com/liftbridge-io/liftbridge-api/v2/go"
	"google.golang.org/grpc/codes"
	"google.golang.org/grpc/status"

	"github.com/liftbridge-io/liftbridge/server/vfutil"
	"pgregory.net/rapid"
)

// C16c: conditional publishes on a started 3-server cluster. One publisher at a
// time, so the offset a publish will be assigned is known: a publish that names
// it (or waives the check) must be stored there, any other must be refused and
// leave the log as it is - whichever server of the cluster receives the RPC
// (the partition leader, a follower, or a server that holds no replica).

type c16cStep struct {
	Via    int `json:"via"`    // server that receives the RPC
	Exp    int `json:"exp"`    // 0 waive(-1), 1 correct, 2 stale, 3 future, 4-6 negative other than -1
	Policy int `json:"policy"` // 1 LEADER, 2 ALL
}

type c16cCase struct {
	RF    int        `json:"rf"`
	Steps []c16cStep `json:"steps"`
}

func genC16c(t *rapid.T) c16cCase {
	c := c16cCase{RF: rapid.IntRange(1, 3).Draw(t, "rf")}
	n := rapid.IntRange(3, 14).Draw(t, "n")
	for i := 0; i < n; i++ {
		c.Steps = append(c.Steps, c16cStep{Via: rapid.IntRange(0, 2).Draw(t, "via"),
			Exp:    rapid.SampledFrom([]int{0, 1, 1, 1, 1, 2, 3, 4, 5, 6}).Draw(t, "exp"),
			Policy: rapid.IntRange(1, 2).Draw(t, "policy")})
	}
	return c
}

var (
	c16cOnce sync.Once
	c16cCl   *vfCluster
	c16cErr  error
	c16cSeq  int
)

func c16cSetup() (*vfCluster, error) {
	c16cOnce.Do(func() {
		c16cCl, c16cErr = newVFCluster("c16c", []string{"a", "b", "c"}, func(cfg *Config) {
			cfg.BatchMaxTime = 0
		})
	})
	return c16cCl, c16cErr
}

func runC16c(c c16cCase, o *vfutil.Obs) *vfutil.Failure {
	cl, err := c16cSetup()
	if err != nil {
		return vfutil.Failf("harness/start", "%v", err)
	}
	ctl, _, err := cl.leader(30 * time.Second)
	if err != nil {
		return vfutil.Failf("harness/leader", "%v", err)
	}
	c16cSeq++
	name := fmt.Sprintf("occ%d", c16cSeq)
	ctx, cancel := ctxFor("", 20*time.Second)
	_, err = ctl.api.CreateStream(ctx, &client.CreateStreamRequest{Name: name, Subject: name, Partitions: 1, ReplicationFactor: int32(c.RF),
		OptimisticConcurrencyControl: &client.NullableBool{Value: true}})
	cancel()
	if err != nil {
		return vfutil.Failf("harness/create", "%v", err)
	}
	// (the stream is not deleted at the end of the case: on the present code a
	// follower that is appending a replication response when its partition is
	// closed panics the process - "Failed to replicate data to log: segment has
	// been closed" - which is outside what C16 states; see DESIGN.md 11.7)
	// every server knows the stream, and the partition leader is running
	var leader *partition
	leaderID := ""
	deadline := time.Now().Add(30 * time.Second)
	for {
		known := 0
		leader = nil
		for _, id := range cl.ids {
			p := cl.srv[id].metadata.GetPartition(name, 0)
			if p == nil {
				continue
			}
			known++
			if p.IsLeader() {
				leader, leaderID = p, id
			}
		}
		if known == len(cl.ids) && leader != nil {
			break
		}
		if time.Now().After(deadline) {
			return vfutil.Failf("harness/leader", "stream %s: known on %d of %d servers, partition leader running: %v", name, known, len(cl.ids), leader != nil)
		}
		time.Sleep(2 * time.Millisecond)
	}
	replicas := map[string]bool{}
	for _, r := range leader.GetReplicas() {
		replicas[r] = true
	}
	n := int64(0) // messages stored so far = the offset the next publish is assigned
	var hist []string
	viaOther := false
	for i, st := range c.Steps {
		id := cl.ids[st.Via%3]
		role := "non-replica"
		if id == leaderID {
			role = "leader"
		} else if replicas[id] {
			role = "follower"
		}
		var exp int64
		switch st.Exp {
		case 0:
			exp = -1
		case 1:
			exp = n
		case 2:
			exp = n - 1 - int64(i%2)
			if exp < 0 {
				exp = n + 1 // nothing to be stale against yet: a future offset instead
			}
		case 4, 5, 6:
			exp = []int64{-2, -7, math.MinInt64}[st.Exp-4]
		default:
			exp = n + 1 + int64(i%3)
		}
		pol := client.AckPolicy_LEADER
		if st.Policy == 2 {
			pol = client.AckPolicy_ALL
		}
		val := fmt.Sprintf("v%d", i)
		ctx, cancel := ctxFor("", 20*time.Second)
		resp, err := cl.srv[id].api.Publish(ctx, &client.PublishRequest{Stream: name, Value: []byte(val), AckPolicy: pol, ExpectedOffset: exp})
		cancel()
		desc := fmt.Sprintf("step %d: publish %s through the %s %s with expected offset %d (log end %d, RF %d, history %v)", i, val, role, id, exp, n, c.RF, hist)
		if status.Code(err) == codes.DeadlineExceeded {
			return vfutil.Failf("harness/publish-timeout", "%s: %v", desc, err)
		}
		should := exp == -1 || exp == n
		if role != "leader" && should && exp >= 0 {
			viaOther = true
		}
		o.Label("via-" + role)
		switch {
		case should && err != nil && exp == -1:
			return vfutil.Failf("C16/waived-publish-rejected", "%s: %v", desc, err)
		case should && err != nil:
			return vfutil.Failf("C16/correct-offset-rejected", "%s: refused although it would have been assigned exactly that offset: %v", desc, err)
		case should:
			if resp.Ack == nil || resp.Ack.Offset != n {
				return vfutil.Failf("C16/ack-offset-wrong", "%s: acked %v", desc, resp.Ack)
			}
			n++
			hist = append(hist, fmt.Sprintf("%s@%s:ok", val, role))
		case err == nil:
			return vfutil.Failf("C16/stored-at-other-offset", "%s: accepted (ack %v)", desc, resp.Ack)
		default:
			hist = append(hist, fmt.Sprintf("%s@%s:refused", val, role))
		}
		// the log is as the model says
		if got := leader.log.NewestOffset() + 1; got != n {
			return vfutil.Failf("C16/log-length", "%s: the leader's log holds %d messages, expected %d", desc, got, n)
		}
	}
	stored := c06ReadValues(leader.log)
	if int64(len(stored)) != n {
		return vfutil.Failf("C16/log-length", "the leader's log holds %v, expected %d messages (history %v)", stored, n, hist)
	}
	if viaOther {
		o.NonTrivial()
	}
	return nil
}

func TestVerifC16c(t *testing.T) {
	defer func() {
		if c16cCl != nil {
			c16cCl.close()
		}
	}()
	vfutil.Run(t, vfutil.Spec[c16cCase]{ID: "C16", Gen: genC16c, Run: runC16c, Journal: true})
}
