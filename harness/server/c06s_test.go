//go:build verif

package server

// Unit C06s: a started single-node server (real Raft, file snapshot store, no
// cursors or activity stream, so the server commits nothing of its own) with
// generated histories of create / delete / pause / publish / Raft snapshot /
// restart. "A server that restarts and rebuilds its state from any
// snapshot-plus-log-replay split reaches the state it had before": after every
// restart the metadata view is the one before the stop, every partition this
// server leads is led again (bounded liveness), holds the messages it held and
// accepts a publish. The split "everything in the snapshot, nothing to replay"
// is the one the other C06 units do not reach (they end the recovery
// themselves, or have operations behind every snapshot).

import (
	"fmt"
	"testing"
	"time"

	client "github.com/liftbridge-io/liftbridge-api/v2/go"

	"github.com/liftbridge-io/liftbridge/server/vfutil"
	"pgregory.net/rapid"
)

type c06sOp struct {
	Op string `json:"op"` // create | delete | pause | publish | snapshot | restart
	S  int    `json:"s,omitempty"`
	N  int    `json:"n,omitempty"`
}

type c06sCase struct {
	Ops []c06sOp `json:"ops"`
}

func genC06s(t *rapid.T) c06sCase {
	var c c06sCase
	n := rapid.IntRange(3, 12).Draw(t, "nops")
	restarts := 0
	for i := 0; i < n; i++ {
		kinds := []string{"create", "create", "publish", "publish", "delete", "pause", "snapshot", "snapshot"}
		if restarts < 3 {
			kinds = append(kinds, "restart", "restart")
		}
		op := c06sOp{Op: rapid.SampledFrom(kinds).Draw(t, "op"), S: rapid.IntRange(0, 2).Draw(t, "s"), N: rapid.IntRange(1, 3).Draw(t, "n")}
		if op.Op == "restart" {
			restarts++
		}
		c.Ops = append(c.Ops, op)
	}
	// the shape that matters most, always at the end: snapshot, then restart
	if rapid.Bool().Draw(t, "tail") {
		c.Ops = append(c.Ops, c06sOp{Op: "snapshot"}, c06sOp{Op: "restart"})
	}
	return c
}

var c06sSeq int

func runC06s(c c06sCase, o *vfutil.Obs) *vfutil.Failure {
	l, err := newVFL3("c06s", nil)
	if err != nil {
		return vfutil.Failf("harness/setup", "%v", err)
	}
	defer l.close()
	c06sSeq++
	name := func(i int) string { return fmt.Sprintf("s%d-%d", c06sSeq, i) }
	exists := map[int]bool{}
	paused := map[int]bool{}
	stored := map[int]int{} // messages acknowledged per stream
	var hist []string
	snapshotSinceOp, restartedFromSnapshot := false, false

	publish := func(i int, what string) *vfutil.Failure {
		ctx, cancel := ctxFor("", 10*time.Second)
		defer cancel()
		_, err := l.s.api.Publish(ctx, &client.PublishRequest{Stream: name(i), Value: []byte(fmt.Sprintf("v%d", stored[i])), AckPolicy: client.AckPolicy_LEADER})
		if err != nil {
			return vfutil.Failf("C06/restarted-server-does-not-serve/"+what, "publish to stream %s fails: %v; history %v", name(i), err, hist)
		}
		stored[i]++
		return nil
	}
	for _, op := range c.Ops {
		switch op.Op {
		case "create":
			if exists[op.S] {
				continue
			}
			ctx, cancel := ctxFor("", 10*time.Second)
			_, err := l.s.api.CreateStream(ctx, &client.CreateStreamRequest{Name: name(op.S), Subject: name(op.S), Partitions: 1})
			cancel()
			if err != nil {
				return vfutil.Failf("harness/create", "%v", err)
			}
			exists[op.S], stored[op.S], paused[op.S] = true, 0, false
			snapshotSinceOp = false
			hist = append(hist, "create("+name(op.S)+")")
		case "delete":
			if !exists[op.S] {
				continue
			}
			ctx, cancel := ctxFor("", 10*time.Second)
			_, err := l.s.api.DeleteStream(ctx, &client.DeleteStreamRequest{Name: name(op.S)})
			cancel()
			if err != nil {
				return vfutil.Failf("harness/delete", "%v", err)
			}
			delete(exists, op.S)
			snapshotSinceOp = false
			hist = append(hist, "delete("+name(op.S)+")")
		case "pause":
			if !exists[op.S] || paused[op.S] {
				continue
			}
			ctx, cancel := ctxFor("", 10*time.Second)
			_, err := l.s.api.PauseStream(ctx, &client.PauseStreamRequest{Name: name(op.S)})
			cancel()
			if err != nil {
				return vfutil.Failf("harness/pause", "%v", err)
			}
			paused[op.S] = true
			snapshotSinceOp = false
			hist = append(hist, "pause("+name(op.S)+")")
		case "publish":
			if !exists[op.S] {
				continue
			}
			if paused[op.S] {
				paused[op.S] = false // a publish resumes the stream (a metadata operation)
				snapshotSinceOp = false
			}
			for k := 0; k < op.N; k++ {
				if f := publish(op.S, "publish"); f != nil {
					if len(hist) == 0 || !restartedFromSnapshot {
						f.Signature = "harness/publish"
					}
					return f
				}
			}
			hist = append(hist, fmt.Sprintf("publish(%s,%d)", name(op.S), op.N))
		case "snapshot":
			serr := make(chan error, 1)
			go func() { serr <- l.s.getRaft().Snapshot().Error() }()
			select {
			case err := <-serr:
				if err == nil {
					snapshotSinceOp = true
					hist = append(hist, "snapshot")
				}
			case <-time.After(20 * time.Second):
				return vfutil.Failf("harness/snapshot", "Raft snapshot did not finish within 20 s")
			}
		case "restart":
			before := c06View(l.s)
			if err := l.restart(); err != nil {
				return vfutil.Failf("C06/restart-error", "%v; history %v", err, hist)
			}
			what := "restart-with-replay"
			if snapshotSinceOp {
				what = "restart-from-snapshot-without-replay"
				restartedFromSnapshot = true
			}
			hist = append(hist, what)
			o.Label(what)
			// the metadata view, once the server has caught up with its own log
			after, _, _ := c06Eventually(func() (string, string) { return before, c06View(l.s) })
			_ = after
			if now := c06View(l.s); now != before {
				return vfutil.Failf("C06/restart-changes-state/"+c06DiffClass(before, now), "history %v: view before the stop:\n%s\nafter the restart:\n%s", hist, before, now)
			}
			// every partition this server leads is led again
			for i := range exists {
				if paused[i] {
					continue
				}
				deadline := time.Now().Add(20 * time.Second)
				leading := false
				for time.Now().Before(deadline) {
					if p := l.s.metadata.GetPartition(name(i), 0); p != nil && p.IsLeader() {
						leading = true
						break
					}
					time.Sleep(5 * time.Millisecond)
				}
				if !leading {
					return vfutil.Failf("C06/restarted-server-does-not-serve/partition-not-started/bounded-liveness(20s)", "history %v: 20 s after the %s stream %s, whose leader this server is, has not been started (it was leading before the stop)", hist, what, name(i))
				}
				p := l.s.metadata.GetPartition(name(i), 0)
				if got := int(p.log.NewestOffset()) + 1; got != stored[i] {
					return vfutil.Failf("C06/replay-lost-data", "history %v: stream %s holds %d messages after the %s, %d were acknowledged", hist, name(i), got, what, stored[i])
				}
				if f := publish(i, "publish-after-"+what); f != nil {
					return f
				}
			}
		}
	}
	if restartedFromSnapshot {
		o.NonTrivial()
	}
	return nil
}

func TestVerifC06s(t *testing.T) {
	vfutil.Run(t, vfutil.Spec[c06sCase]{ID: "C06", Gen: genC06s, Run: runC06s})
}
