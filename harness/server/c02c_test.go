//go:build verif

package server

import (
	"fmt"
	"sync/atomic"
	"testing"
	"time"

	client "github.com/liftbridge-io/liftbridge-api/v2/go"

	"github.com/liftbridge-io/liftbridge/server/vfutil"
	"pgregory.net/rapid"
)

// C02c: a 3-replica partition on a started 3-server cluster. Elections,
// in-sync-set shrinks and expansions are decided by the real code (follower
// reports, controller quorum, replicator lag detection); the harness only
// publishes, stops servers and starts them again.

type c02cOp struct {
	Op     string `json:"op"` // publish | stopleader | stopfollower | revive | wait
	N      int    `json:"n,omitempty"`
	Policy int    `json:"policy,omitempty"` // 1 LEADER, 2 ALL
	Ms     int    `json:"ms,omitempty"`
}

type c02cCase struct {
	Ops []c02cOp `json:"ops"`
}

func genC02c(t *rapid.T) c02cCase {
	var c c02cCase
	c.Ops = append(c.Ops, c02cOp{Op: "publish", N: rapid.IntRange(1, 4).Draw(t, "n0"), Policy: 2})
	n := rapid.IntRange(4, 14).Draw(t, "nops")
	stops := 0
	for i := 0; i < n; i++ {
		kinds := []string{"publish", "publish", "publish", "wait"}
		if stops < 3 {
			kinds = append(kinds, "stopleader", "stopleader", "stopfollower")
		}
		op := c02cOp{Op: rapid.SampledFrom(kinds).Draw(t, "op")}
		switch op.Op {
		case "publish":
			op.N = rapid.IntRange(1, 4).Draw(t, "n")
			op.Policy = rapid.SampledFrom([]int{1, 2, 2, 2}).Draw(t, "policy")
			c.Ops = append(c.Ops, op)
		case "wait":
			op.Ms = rapid.SampledFrom([]int{50, 300, 1500}).Draw(t, "ms")
			c.Ops = append(c.Ops, op)
		default:
			stops++
			c.Ops = append(c.Ops, op)
			// while the server is away: publishes and waits, then it comes back
			k := rapid.IntRange(0, 3).Draw(t, "while-down")
			for j := 0; j < k; j++ {
				if rapid.Bool().Draw(t, "w") {
					c.Ops = append(c.Ops, c02cOp{Op: "wait", Ms: rapid.SampledFrom([]int{300, 1500, 2500}).Draw(t, "dms")})
				} else {
					c.Ops = append(c.Ops, c02cOp{Op: "publish", N: rapid.IntRange(1, 3).Draw(t, "dn"), Policy: rapid.SampledFrom([]int{1, 2, 2}).Draw(t, "dpolicy")})
				}
			}
			c.Ops = append(c.Ops, c02cOp{Op: "revive"})
		}
	}
	return c
}

func runC02c(c c02cCase, o *vfutil.Obs) *vfutil.Failure {
	ids := []string{"a", "b", "c"}
	cl, err := newVFCluster("c02c", ids, func(cfg *Config) {
		cfg.Clustering.ReplicaMaxLeaderTimeout = time.Second
		cfg.Clustering.ReplicaMaxLagTime = time.Second
		cfg.Clustering.ReplicaFetchTimeout = 500 * time.Millisecond
		cfg.Clustering.ReplicaMaxIdleWait = 50 * time.Millisecond
	})
	if err != nil {
		return vfutil.Failf("harness/start", "%v", err)
	}
	defer cl.close()
	const name = "rep"
	l, _, err := cl.leader(30 * time.Second)
	if err != nil {
		return vfutil.Failf("harness/leader", "%v", err)
	}
	ctx, cancel := ctxFor("", 20*time.Second)
	_, err = l.api.CreateStream(ctx, &client.CreateStreamRequest{Name: name, Subject: name, Partitions: 1, ReplicationFactor: 3})
	cancel()
	if err != nil {
		return vfutil.Failf("harness/create", "%v", err)
	}
	var hist []string
	committed := map[int64]string{}
	seq := 0
	down := ""
	stops := 0
	// the running server that leads the partition, if exactly one does
	partLeader := func(timeout time.Duration) (string, *partition) {
		deadline := time.Now().Add(timeout)
		for {
			var lid string
			var lp *partition
			n := 0
			for _, id := range ids {
				if s := cl.srv[id]; s != nil {
					if p := s.metadata.GetPartition(name, 0); p != nil && p.IsLeader() {
						lid, lp = id, p
						n++
					}
				}
			}
			if n == 1 {
				return lid, lp
			}
			if time.Now().After(deadline) {
				return "", nil
			}
			time.Sleep(2 * time.Millisecond)
		}
	}
	describe := func() string {
		out := ""
		for _, id := range ids {
			s := cl.srv[id]
			if s == nil {
				out += fmt.Sprintf(" [%s down]", id)
				continue
			}
			p := s.metadata.GetPartition(name, 0)
			if p == nil {
				out += fmt.Sprintf(" [%s no partition]", id)
				continue
			}
			ld, ep := p.GetLeader()
			out += fmt.Sprintf(" [%s: leader=%s/%d isr=%v newest=%d hw=%d leading=%v]", id, ld, ep, p.GetISR(), p.log.NewestOffset(), p.log.HighWatermark(), p.IsLeader())
		}
		return out
	}
	tainted := false
	check := func(step string) *vfutil.Failure {
		if atomic.LoadInt64(&cl.hwFallbacks) > 0 && vfutil.IsExcluded("c02-hw-truncation-fallback") {
			// open finding: a follower could not reach its leader and truncated
			// to its own, lagging HW; what is lost after that is that finding
			if !tainted {
				tainted = true
				o.Excluded("c02-hw-truncation-fallback")
			}
			return nil
		}
		logs := map[string][]c02Entry{}
		hws := map[string]int64{}
		lid0, _ := partLeader(0) // who leads before the logs are read; judged only if it still leads afterwards
		for _, id := range ids {
			s := cl.srv[id]
			if s == nil {
				continue
			}
			p := s.metadata.GetPartition(name, 0)
			if p == nil {
				continue
			}
			hw := p.log.HighWatermark()
			lg, err := c02ReadLog(p)
			for try := 0; err != nil && try < 5; try++ {
				// the replica may be truncating or rolling right now
				time.Sleep(20 * time.Millisecond)
				lg, err = c02ReadLog(p)
			}
			if err != nil {
				return vfutil.Failf("harness/log-unreadable", "%s, history %v: replica %s: %v", step, hist, id, err)
			}
			logs[id], hws[id] = lg, hw
			for i := 1; i < len(lg); i++ {
				if lg[i].Off != lg[i-1].Off+1 {
					return vfutil.Failf("C02/log-not-contiguous", "%s, history %v: replica %s offsets %d,%d", step, hist, id, lg[i-1].Off, lg[i].Off)
				}
			}
		}
		for i, a := range ids {
			for _, b := range ids[i+1:] {
				la, oka := logs[a]
				lb, okb := logs[b]
				if !oka || !okb {
					continue
				}
				for k := 0; k < len(la) && k < len(lb); k++ {
					if la[k].Off > hws[a] || la[k].Off > hws[b] {
						break
					}
					if la[k].Val != lb[k].Val || la[k].Epoch != lb[k].Epoch {
						return vfutil.Failf("C02/replicas-diverge-below-hw", "%s, history %v: offset %d (<= HW %d of %s and %d of %s): %s holds %q@e%d, %s holds %q@e%d", step, hist, la[k].Off, hws[a], a, hws[b], b, a, la[k].Val, la[k].Epoch, b, lb[k].Val, lb[k].Epoch)
					}
				}
			}
		}
		lid2, _ := partLeader(0)
		if lg, ok := logs[lid0]; ok && lid0 != "" && lid0 == lid2 {
			lid := lid0
			for off, v := range committed {
				if off >= int64(len(lg)) {
					return vfutil.Failf("C02/committed-message-lost", "%s, history %v: %q was acknowledged (ALL) at offset %d but leader %s holds only %d messages;%s", step, hist, v, off, lid, len(lg), describe())
				}
				if lg[off].Val != v {
					return vfutil.Failf("C02/committed-message-replaced", "%s, history %v: %q was acknowledged (ALL) at offset %d but leader %s serves %q there", step, hist, v, off, lid, lg[off].Val)
				}
			}
		}
		return nil
	}
	anyServer := func() *Server {
		for _, id := range ids {
			if s := cl.srv[id]; s != nil {
				return s
			}
		}
		return nil
	}
	for step, op := range c.Ops {
		switch op.Op {
		case "publish":
			for i := 0; i < op.N; i++ {
				seq++
				val := fmt.Sprintf("m%d", seq)
				pol := client.AckPolicy_LEADER
				if op.Policy == 2 {
					pol = client.AckPolicy_ALL
				}
				ctx, cancel := ctxFor("", 3*time.Second)
				resp, err := anyServer().api.Publish(ctx, &client.PublishRequest{Stream: name, Value: []byte(val), AckPolicy: pol})
				cancel()
				if err == nil && resp.Ack != nil && pol == client.AckPolicy_ALL {
					if prev, dup := committed[resp.Ack.Offset]; dup && !(atomic.LoadInt64(&cl.hwFallbacks) > 0 && vfutil.IsExcluded("c02-hw-truncation-fallback")) {
						return vfutil.Failf("C02/two-messages-committed-at-one-offset", "step %d, history %v: offset %d acknowledged for %q and %q", step, hist, resp.Ack.Offset, prev, val)
					}
					committed[resp.Ack.Offset] = val
				}
				hist = append(hist, fmt.Sprintf("publish(%s,%s)%s", val, pol, errMark(err)))
			}
		case "wait":
			time.Sleep(time.Duration(op.Ms) * time.Millisecond)
			hist = append(hist, fmt.Sprintf("wait(%dms)", op.Ms))
		case "stopleader", "stopfollower":
			if down != "" {
				continue
			}
			lid, _ := partLeader(10 * time.Second)
			if lid == "" {
				return vfutil.Failf("harness/partition-leader", "no partition leader; history %v", hist)
			}
			victim := lid
			if op.Op == "stopfollower" {
				for _, id := range ids {
					if id != lid {
						victim = id
						break
					}
				}
			}
			cl.stop(victim)
			down = victim
			stops++
			hist = append(hist, fmt.Sprintf("%s(%s)", op.Op, victim))
		case "revive":
			if down == "" {
				continue
			}
			// a follower that comes back while it cannot reach a partition leader
			// falls back to truncating to its own HW (open finding
			// C02-hw-truncation-fallback): wait for a leader first
			if lid, _ := partLeader(30 * time.Second); lid == "" {
				return vfutil.Failf("harness/partition-leader", "no partition leader elected within 30s of stopping %s; history %v", down, hist)
			}
			if err := cl.start(down, false); err != nil {
				return vfutil.Failf("harness/revive", "%v", err)
			}
			hist = append(hist, "revive("+down+")")
			down = ""
		}
		if f := check(fmt.Sprintf("step %d", step)); f != nil {
			return f
		}
	}
	if down != "" {
		if lid, _ := partLeader(30 * time.Second); lid == "" {
			return vfutil.Failf("harness/partition-leader", "no partition leader at the end; history %v", hist)
		}
		if err := cl.start(down, false); err != nil {
			return vfutil.Failf("harness/revive", "%v", err)
		}
	}
	// ---- quiescence: a leader, every replica at the leader's end with HW there
	deadline := time.Now().Add(40 * time.Second)
	for {
		_, lp := partLeader(10 * time.Second)
		ok := lp != nil
		if ok {
			end := lp.log.NewestOffset()
			for _, id := range ids {
				p := cl.srv[id].metadata.GetPartition(name, 0)
				if p == nil || p.log.NewestOffset() != end || p.log.HighWatermark() != end {
					ok = false
				}
			}
		}
		if ok {
			break
		}
		if time.Now().After(deadline) {
			return vfutil.Failf("harness/quiescence", "the replicas did not converge within 40s; history %v", hist)
		}
		time.Sleep(10 * time.Millisecond)
	}
	if f := check("at quiescence"); f != nil {
		return f
	}
	o.Count("committed", len(committed))
	if stops > 0 && len(committed) > 0 && !tainted {
		o.NonTrivial()
		o.Label(fmt.Sprintf("servers-stopped:%d", stops))
	}
	return nil
}

func TestVerifC02c(t *testing.T) {
	vfutil.Run(t, vfutil.Spec[c02cCase]{ID: "C02", Gen: genC02c, Run: runC02c, Journal: true})
}
