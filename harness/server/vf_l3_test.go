//go:build verif

package server

import (
	"context"
	"fmt"
	"io"
	"os"
	"sync"
	"time"

	client "github.com/liftbridge-io/liftbridge-api/v2/go"
	gnatsd "github.com/nats-io/nats-server/v2/server"
	natsdTest "github.com/nats-io/nats-server/v2/test"
	"google.golang.org/grpc/metadata"
)

// vfL3 is a started single-node server with its own in-process NATS server on
// a random port; API handlers are invoked in-process.
type vfL3 struct {
	ns  *gnatsd.Server
	s   *Server
	dir string
	cfg func(*Config)
}

func vfStartNATS() *gnatsd.Server {
	opts := natsdTest.DefaultTestOptions
	opts.Port = -1
	return natsdTest.RunServer(&opts)
}

// vfStart starts a server over dir (restart = same dir again).
func vfStart(dir, id string, ns *gnatsd.Server, mut func(*Config)) (*Server, error) {
	c := vfConfig(dir, id)
	c.NATS.Servers = []string{ns.ClientURL()}
	c.Port = 0
	c.Host = "127.0.0.1"
	c.Clustering.RaftBootstrapSeed = true
	c.Clustering.Namespace = "vf" + id
	c.LogRaft = false
	if mut != nil {
		mut(c)
	}
	s := New(c)
	if err := s.Start(); err != nil {
		return nil, err
	}
	deadline := time.Now().Add(20 * time.Second)
	for time.Now().Before(deadline) {
		if s.getRaft() != nil && s.IsLeader() {
			return s, nil
		}
		time.Sleep(2 * time.Millisecond)
	}
	s.Stop()
	return nil, fmt.Errorf("server did not become metadata leader within 20s")
}

func newVFL3(prefix string, mut func(*Config)) (*vfL3, error) {
	l := &vfL3{ns: vfStartNATS(), cfg: mut}
	d, err := os.MkdirTemp(scratchRoot(), prefix)
	if err != nil {
		return nil, err
	}
	l.dir = d
	s, err := vfStart(d, "a", l.ns, mut)
	if err != nil {
		l.ns.Shutdown()
		return nil, err
	}
	l.s = s
	return l, nil
}

func (l *vfL3) restart() error {
	l.s.Stop()
	s, err := vfStart(l.dir, "a", l.ns, l.cfg)
	if err != nil {
		return err
	}
	l.s = s
	return nil
}

func (l *vfL3) close() {
	if l.s != nil {
		l.s.Stop()
	}
	l.ns.Shutdown()
	// the data directory stays until the driver removes the shard's scratch
	// space (see vfCluster.close)
}

func scratchRoot() string {
	d := os.Getenv("VERIF_SCRATCH")
	if d == "" {
		d = os.TempDir()
	}
	os.MkdirAll(d, 0o755)
	return d
}

func ctxFor(clientID string, timeout time.Duration) (context.Context, context.CancelFunc) {
	ctx := context.Background()
	if clientID != "" {
		ctx = context.WithValue(ctx, "clientID", clientID) // exactly what addUserContext stores
	}
	if timeout > 0 {
		return context.WithTimeout(ctx, timeout)
	}
	return context.WithCancel(ctx)
}

// ---- fake gRPC streams

type fakeServerStream struct{ ctx context.Context }

func (f *fakeServerStream) SetHeader(metadata.MD) error  { return nil }
func (f *fakeServerStream) SendHeader(metadata.MD) error { return nil }
func (f *fakeServerStream) SetTrailer(metadata.MD)       {}
func (f *fakeServerStream) Context() context.Context     { return f.ctx }
func (f *fakeServerStream) SendMsg(m interface{}) error  { return nil }
func (f *fakeServerStream) RecvMsg(m interface{}) error  { return nil }

type fakeSubscribeStream struct {
	fakeServerStream
	mu   sync.Mutex
	msgs []*client.Message
}

func (f *fakeSubscribeStream) Send(m *client.Message) error {
	f.mu.Lock()
	f.msgs = append(f.msgs, m)
	f.mu.Unlock()
	return nil
}

func (f *fakeSubscribeStream) received() []*client.Message {
	f.mu.Lock()
	defer f.mu.Unlock()
	return append([]*client.Message(nil), f.msgs...)
}

type fakePublishAsyncStream struct {
	fakeServerStream
	in   chan *client.PublishRequest
	mu   sync.Mutex
	outs []*client.PublishResponse
}

func (f *fakePublishAsyncStream) Recv() (*client.PublishRequest, error) {
	select {
	case r, ok := <-f.in:
		if !ok {
			return nil, io.EOF
		}
		return r, nil
	case <-f.ctx.Done():
		return nil, io.EOF
	}
}

func (f *fakePublishAsyncStream) Send(r *client.PublishResponse) error {
	f.mu.Lock()
	f.outs = append(f.outs, r)
	f.mu.Unlock()
	return nil
}

func (f *fakePublishAsyncStream) responses() []*client.PublishResponse {
	f.mu.Lock()
	defer f.mu.Unlock()
	return append([]*client.PublishResponse(nil), f.outs...)
}
