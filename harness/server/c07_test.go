//go:build verif

package server

import (
	"fmt"
	"os"
	"sort"
	"sync"
	"testing"
	"time"

	"google.golang.org/grpc/codes"

	proto "github.com/liftbridge-io/liftbridge/server/protocol"
	"github.com/liftbridge-io/liftbridge/server/vfutil"
	"pgregory.net/rapid"
)

// C07: leader reports, ISR changes and controller leadership losses against
// the real metadata API of a started single-node controller (real Raft).

type c07Op struct {
	Op    string `json:"op"` // report | shrink | expand | lost | wait
	Rep   int    `json:"rep,omitempty"`
	Stale int    `json:"stale,omitempty"` // 0 current pair, 1 stale epoch, 2 wrong leader
}

type c07Case struct {
	Replicas int     `json:"replicas"` // 3 or 5
	Fast     bool    `json:"fast"`     // 40 ms expiry regime with explicit waits
	Ops      []c07Op `json:"ops"`
}

func genC07(t *rapid.T) c07Case {
	c := c07Case{Replicas: rapid.SampledFrom([]int{3, 3, 5}).Draw(t, "replicas"), Fast: rapid.IntRange(0, 9).Draw(t, "fast") == 0}
	n := rapid.IntRange(3, 30).Draw(t, "nops")
	for i := 0; i < n; i++ {
		op := c07Op{Rep: rapid.IntRange(0, c.Replicas-1).Draw(t, "rep")}
		kinds := []string{"report", "report", "report", "report", "report", "shrink", "expand", "lost", "bounce"}
		if c.Fast {
			kinds = append(kinds, "wait", "wait")
		}
		op.Op = rapid.SampledFrom(kinds).Draw(t, "op")
		if rapid.IntRange(0, 5).Draw(t, "stale?") == 0 {
			op.Stale = rapid.IntRange(1, 2).Draw(t, "stale")
		}
		c.Ops = append(c.Ops, op)
	}
	return c
}

var (
	c07Once sync.Once
	c07L    *vfL3
	c07Err  error
	c07Seq  int
)

func c07Setup() (*vfL3, error) {
	c07Once.Do(func() {
		c07L, c07Err = newVFL3("c07", func(c *Config) {
			c.Clustering.ReplicaMaxLeaderTimeout = 10 * time.Minute
		})
	})
	return c07L, c07Err
}

func runC07(c c07Case, o *vfutil.Obs) *vfutil.Failure {
	l, err := c07Setup()
	if err != nil {
		return vfutil.Failf("harness/setup", "%v", err)
	}
	s := l.s
	if c.Fast {
		s.config.Clustering.ReplicaMaxLeaderTimeout = 40 * time.Millisecond
	} else {
		s.config.Clustering.ReplicaMaxLeaderTimeout = 10 * time.Minute
	}
	defer func() { s.config.Clustering.ReplicaMaxLeaderTimeout = 10 * time.Minute }()
	c07Seq++
	name := fmt.Sprintf("fo%d", c07Seq)
	var replicas []string
	for i := 0; i < c.Replicas; i++ {
		replicas = append(replicas, string(rune('b'+i)))
	}
	// create the stream through Raft with foreign replicas: this server is the
	// controller only
	create := &proto.RaftLog{Op: proto.Op_CREATE_STREAM, CreateStreamOp: &proto.CreateStreamOp{Stream: &proto.Stream{Name: name, Subject: name,
		Partitions: []*proto.Partition{{Subject: name, Stream: name, Id: 0, ReplicationFactor: int32(c.Replicas), Replicas: append([]string{}, replicas...), Isr: append([]string{}, replicas...), Leader: replicas[0]}}}}}
	ctx, cancel := ctxFor("", 20*time.Second)
	fut, err := s.getRaft().applyOperation(ctx, create, nil)
	if err == nil {
		err = fut.Error()
	}
	cancel()
	if err != nil {
		return vfutil.Failf("harness/create", "%v", err)
	}
	defer func() {
		ctx, cancel := ctxFor("", 20*time.Second)
		s.metadata.DeleteStream(ctx, &proto.DeleteStreamOp{Stream: name})
		cancel()
	}()
	p := s.metadata.GetPartition(name, 0)
	if p == nil {
		return vfutil.Failf("harness/create", "partition missing after create")
	}

	// ---- model
	leader, epoch := p.GetLeader()
	isr := map[string]bool{}
	for _, r := range replicas {
		isr[r] = true
	}
	witnesses := map[string]bool{}
	leaderOf := map[uint64]string{epoch: leader}
	lastPartEpoch := p.GetEpoch()
	var hist []string
	failovers, afterFailoverReports, isrChangeInRound, outsideISR, expiries := 0, 0, false, false, 0

	snapshot := func() (string, uint64, []string, uint64) {
		l, e := p.GetLeader()
		i := p.GetISR()
		sort.Strings(i)
		return l, e, i, p.GetEpoch()
	}
	checkInvariants := func(step int) *vfutil.Failure {
		l, e, i, pe := snapshot()
		inISR := false
		for _, r := range i {
			if r == l {
				inISR = true
			}
			found := false
			for _, rr := range replicas {
				if rr == r {
					found = true
				}
			}
			if !found {
				return vfutil.Failf("C07/isr-not-subset-of-replicas", "step %d, history %v: ISR %v contains non-replica %s", step, hist, i, r)
			}
		}
		if !inISR {
			return vfutil.Failf("C07/leader-not-in-isr", "step %d, history %v: leader %s not in ISR %v", step, hist, l, i)
		}
		if prev, ok := leaderOf[e]; ok && prev != l {
			return vfutil.Failf("C07/two-leaders-in-one-epoch", "step %d, history %v: leader epoch %d had leader %s and now %s", step, hist, e, prev, l)
		}
		leaderOf[e] = l
		if pe < lastPartEpoch {
			return vfutil.Failf("C07/partition-epoch-decreased", "step %d, history %v: partition epoch %d -> %d", step, hist, lastPartEpoch, pe)
		}
		lastPartEpoch = pe
		return nil
	}
	for step, op := range c.Ops {
		rep := replicas[op.Rep%len(replicas)]
		reqLeader, reqEpoch := leader, epoch
		switch op.Stale {
		case 1:
			if epoch == 0 {
				reqEpoch = epoch + 7
			} else {
				reqEpoch = epoch - 1
			}
		case 2:
			for _, r := range replicas {
				if r != leader {
					reqLeader = r
					break
				}
			}
		}
		stale := op.Stale != 0
		bl, be, bi, _ := snapshot()
		t0 := time.Now()
		switch op.Op {
		case "wait":
			time.Sleep(150 * time.Millisecond)
			witnesses = map[string]bool{}
			expiries++
			hist = append(hist, "wait")
			continue
		case "lost":
			s.metadata.LostLeadership()
			witnesses = map[string]bool{}
			hist = append(hist, "lost")
			continue
		case "report":
			if rep == leader {
				continue // a leader does not report itself
			}
			ctx, cancel := ctxFor("", 20*time.Second)
			st := s.metadata.ReportLeader(ctx, &proto.ReportLeaderOp{Stream: name, Partition: 0, Replica: rep, Leader: reqLeader, LeaderEpoch: reqEpoch})
			cancel()
			hist = append(hist, fmt.Sprintf("report(%s%s)", rep, staleMark(op.Stale)))
			if c.Fast && time.Since(t0) > 20*time.Millisecond {
				o.Inconclusive("a step straddled the expiry timer")
				return nil
			}
			al, ae, ai, _ := snapshot()
			if stale {
				if st == nil || st.Code() != codes.FailedPrecondition {
					return vfutil.Failf("C07/stale-report-accepted", "step %d, history %v: report naming (%s,%d) while the leader is (%s,%d) returned %v", step, hist, reqLeader, reqEpoch, leader, epoch, st)
				}
				if al != bl || ae != be || fmt.Sprint(ai) != fmt.Sprint(bi) {
					return vfutil.Failf("C07/stale-report-changed-state", "step %d, history %v", step, hist)
				}
				continue
			}
			// every report within the window is remembered; only reporters that
			// are in-sync followers when the quorum is evaluated count
			witnesses[rep] = true
			if !isr[rep] {
				outsideISR = true
				o.Label("report-from-outside-isr")
			}
			if failovers > 0 {
				afterFailoverReports++
			}
			// model: more than half of the in-sync followers
			followers, inSyncWitnesses := 0, 0
			for r := range isr {
				if r != leader {
					followers++
					if witnesses[r] {
						inSyncWitnesses++
					}
				}
			}
			allowed := followers > 0 && 2*inSyncWitnesses > followers
			changed := al != bl
			if changed && !allowed {
				cls := "too-few-witnesses"
				if !isr[rep] {
					cls = "report-from-outside-isr-counted"
				} else if failovers > 0 && inSyncWitnesses == 1 {
					cls = "witnesses-of-previous-leader-counted"
				}
				return vfutil.Failf("C07/leader-deposed-without-quorum/"+cls, "step %d, history %v: leader changed %s(%d) -> %s(%d) but only %d of %d in-sync followers reported the current leader (ISR %v)", step, hist, bl, be, al, ae, inSyncWitnesses, followers, bi)
			}
			if !changed && allowed {
				return vfutil.Failf("C07/no-failover-despite-quorum", "step %d, history %v: %d of %d in-sync followers reported %s(%d) but the leader was not changed (status %v)", step, hist, inSyncWitnesses, followers, bl, be, st)
			}
			if changed {
				if !isr[al] || al == bl {
					return vfutil.Failf("C07/new-leader-not-from-isr", "step %d, history %v: new leader %s, old %s, ISR %v", step, hist, al, bl, bi)
				}
				if ae <= be {
					return vfutil.Failf("C07/leader-epoch-not-increased", "step %d, history %v: leader epoch %d -> %d on a leader change", step, hist, be, ae)
				}
				leader, epoch = al, ae
				witnesses = map[string]bool{}
				failovers++
				isrChangeInRound = false
				o.Label("failover")
			}
		case "bounce":
			// the stream is paused and resumed: the partition object is rebuilt
			// from the stored record, which must hold the same leader, epoch and
			// in-sync set (what a snapshot restore does as well)
			ctx, cancel := ctxFor("", 20*time.Second)
			st := s.metadata.PauseStream(ctx, &proto.PauseStreamOp{Stream: name, Partitions: []int32{0}})
			if st == nil {
				st = s.metadata.ResumeStream(ctx, &proto.ResumeStreamOp{Stream: name, Partitions: []int32{0}})
			}
			cancel()
			if st != nil {
				if st.Code() == codes.Internal {
					o.Inconclusive("raft proposal failed")
					return nil
				}
				return vfutil.Failf("harness/bounce", "pause/resume: %v", st.Err())
			}
			if np := s.metadata.GetPartition(name, 0); np != nil {
				p = np
			}
			hist = append(hist, "bounce")
			// (the reports collected so far belong to the partition object that
			// was replaced: a new round starts)
			witnesses = map[string]bool{}
			al, ae, ai, _ := snapshot()
			if al != bl || ae != be || fmt.Sprint(ai) != fmt.Sprint(bi) {
				return vfutil.Failf("C07/pause-resume-changes-leadership-state", "step %d, history %v: pause + resume turned leader %s, epoch %d, ISR %v into leader %s, epoch %d, ISR %v", step, hist, bl, be, bi, al, ae, ai)
			}
			o.Label("partition-rebuilt-by-pause-resume")
		case "shrink", "expand":
			if rep == leader {
				continue // only followers are shrunk/expanded (replicator)
			}
			ctx, cancel := ctxFor("", 20*time.Second)
			var code codes.Code = codes.OK
			if op.Op == "shrink" {
				if st := s.metadata.ShrinkISR(ctx, &proto.ShrinkISROp{Stream: name, Partition: 0, ReplicaToRemove: rep, Leader: reqLeader, LeaderEpoch: reqEpoch}); st != nil {
					code = st.Code()
				}
			} else {
				if st := s.metadata.ExpandISR(ctx, &proto.ExpandISROp{Stream: name, Partition: 0, ReplicaToAdd: rep, Leader: reqLeader, LeaderEpoch: reqEpoch}); st != nil {
					code = st.Code()
				}
			}
			cancel()
			hist = append(hist, fmt.Sprintf("%s(%s%s)", op.Op, rep, staleMark(op.Stale)))
			_, _, ai, _ := snapshot()
			if stale {
				if code != codes.FailedPrecondition {
					return vfutil.Failf("C07/stale-isr-change-accepted", "step %d, history %v: %s naming (%s,%d) while the leader is (%s,%d) returned %v", step, hist, op.Op, reqLeader, reqEpoch, leader, epoch, code)
				}
				if fmt.Sprint(ai) != fmt.Sprint(bi) {
					return vfutil.Failf("C07/stale-isr-change-applied", "step %d, history %v: ISR %v -> %v", step, hist, bi, ai)
				}
				continue
			}
			if code == codes.Internal {
				// the Raft proposal itself failed (time-out under load): not judged
				o.Inconclusive("raft proposal failed")
				return nil
			}
			if code != codes.OK {
				return vfutil.Failf("C07/isr-change-refused", "step %d, history %v: %s with the current (leader, epoch) returned %v", step, hist, op.Op, code)
			}
			if op.Op == "shrink" {
				delete(isr, rep)
			} else {
				isr[rep] = true
			}
			var want []string
			for r := range isr {
				want = append(want, r)
			}
			sort.Strings(want)
			if fmt.Sprint(ai) != fmt.Sprint(want) {
				return vfutil.Failf("C07/isr-wrong", "step %d, history %v: ISR %v, want %v", step, hist, ai, want)
			}
			if len(witnesses) > 0 {
				isrChangeInRound = true
			}
		}
		if f := checkInvariants(step); f != nil {
			return f
		}
	}
	if (failovers > 0 && afterFailoverReports > 0) || isrChangeInRound || outsideISR || expiries > 0 {
		o.NonTrivial()
	}
	return nil
}

func staleMark(s int) string {
	switch s {
	case 1:
		return ",stale-epoch"
	case 2:
		return ",wrong-leader"
	}
	return ""
}

func TestVerifC07(t *testing.T) {
	defer func() {
		if c07L != nil {
			c07L.close()
		}
	}()
	vfutil.Run(t, vfutil.Spec[c07Case]{ID: "C07", Gen: genC07, Run: runC07, Journal: true})
}

// c07Alphabet is the operation alphabet of the bounded-exhaustive pass over a
// 3-replica partition (replica 0 is the initial leader).
func c07Alphabet() []c07Op {
	var a []c07Op
	for rep := 0; rep < 3; rep++ {
		for stale := 0; stale < 2; stale++ {
			a = append(a, c07Op{Op: "report", Rep: rep, Stale: stale})
		}
	}
	a = append(a, c07Op{Op: "report", Rep: 1, Stale: 2})
	for rep := 1; rep < 3; rep++ {
		a = append(a, c07Op{Op: "shrink", Rep: rep}, c07Op{Op: "expand", Rep: rep})
	}
	return append(a, c07Op{Op: "lost"})
}

// TestVerifC07Exh runs every operation sequence up to length LEN over the
// alphabet above through the executor and oracle of the random search.
func TestVerifC07Exh(t *testing.T) {
	defer func() {
		if c07L != nil {
			c07L.close()
		}
	}()
	maxLen := vfutil.Param("LEN", 3)
	shard, shards := 0, 1
	if v := os.Getenv("VERIF_SHARD"); v != "" {
		fmt.Sscan(v, &shard)
	}
	if v := os.Getenv("VERIF_SHARDS"); v != "" {
		fmt.Sscan(v, &shards)
	}
	alpha := c07Alphabet()
	vfutil.Exhaustive(t, vfutil.Spec[c07Case]{ID: "C07", Gen: genC07, Run: runC07}, func(yield func(c07Case) bool) {
		n := 0
		idx := make([]int, 0, maxLen)
		var rec func() bool
		rec = func() bool {
			if len(idx) > 0 {
				if n%shards == shard {
					c := c07Case{Replicas: 3}
					for _, i := range idx {
						c.Ops = append(c.Ops, alpha[i])
					}
					if !yield(c) {
						return false
					}
				}
				n++
			}
			if len(idx) == maxLen {
				return true
			}
			for i := range alpha {
				idx = append(idx, i)
				if !rec() {
					return false
				}
				idx = idx[:len(idx)-1]
			}
			return true
		}
		rec()
	})
}
