//go:build verif

package server

import (
	"context"
	"fmt"
	"os"
	"path/filepath"
	"sort"
	"strings"
	"sync"
	"testing"
	"time"

	client "github.com/liftbridge-io/liftbridge-api/v2/go"
	gnatsd "github.com/nats-io/nats-server/v2/server"
	"github.com/nats-io/nats.go"

	proto "github.com/liftbridge-io/liftbridge/server/protocol"
	"github.com/liftbridge-io/liftbridge/server/vfutil"
	"pgregory.net/rapid"
)

// C02: a 3-replica partition on three bare servers sharing one NATS server.
// The harness is the Raft log (metadata operations are applied to each live
// server through the real Server.apply) and decides crashes, restarts and
// elections; replication, truncation and commit are the real code.

type c02Step struct {
	Op     string `json:"op"` // publish | settle | hold | release | crash | restart | shrink | expand | leader
	N      int    `json:"n,omitempty"`
	Policy int    `json:"policy,omitempty"` // 1 LEADER, 2 ALL
	X      int    `json:"x,omitempty"`      // replica selector
	Sel    int    `json:"sel,omitempty"`    // stale-checkpoint selector / apply-order selector
}

type c02Case struct {
	Steps []c02Step `json:"steps"`
	// clustering.replication.max.bytes of the three servers (0 = default): a
	// small value makes a follower catch up in several fetches
	MaxRepl int64 `json:"maxrepl,omitempty"`
}

// c02Parked is a committed reader (what a subscription on a replica reads from)
// that stays blocked in ReadMessage on a follower's log while the follower
// replicates.
type c02Parked struct {
	node   string
	part   *partition
	mu     sync.Mutex
	offs   []int64
	vals   []string
	err    error
	cancel func()
}

func genC02(t *rapid.T) c02Case {
	var c c02Case
	if rapid.IntRange(0, 3).Draw(t, "directed") == 0 {
		// the old leader keeps an uncommitted tail, a new leader commits other
		// messages at those offsets, a second failover, the first leader rejoins
		x := rapid.IntRange(0, 2).Draw(t, "x")
		c.Steps = []c02Step{
			{Op: "publish", N: rapid.IntRange(1, 3).Draw(t, "n0"), Policy: 2}, {Op: "settle"},
			{Op: "hold"}, {Op: "publish", N: rapid.IntRange(1, 3).Draw(t, "n1"), Policy: 1},
			{Op: "crash", X: 100, Sel: rapid.IntRange(0, 3).Draw(t, "sel")}, {Op: "leader", X: x, Sel: rapid.IntRange(0, 1).Draw(t, "order")},
			{Op: "publish", N: rapid.IntRange(1, 3).Draw(t, "n2"), Policy: 2}, {Op: "settle"},
			{Op: "shrink", X: 100},
			{Op: "crash", X: 101, Sel: 0}, {Op: "leader", X: x + 1, Sel: rapid.IntRange(0, 1).Draw(t, "order2")},
			{Op: "publish", N: rapid.IntRange(1, 2).Draw(t, "n3"), Policy: 2},
			{Op: "restart", X: 100}, {Op: "settle"}, {Op: "restart", X: 101}, {Op: "settle"},
		}
		o := rapid.IntRange(0, 4).Draw(t, "extra")
		for i := 0; i < o; i++ {
			c.Steps = append(c.Steps, c02Step{Op: rapid.SampledFrom([]string{"publish", "settle", "expand"}).Draw(t, "eop"), N: 1, Policy: 2, X: rapid.IntRange(0, 2).Draw(t, "ex")})
		}
		return c
	}
	if rapid.IntRange(0, 4).Draw(t, "directed2") == 0 {
		// a leader is elected for a term in which nothing is published and is
		// deposed again without a restart; the next leader writes messages that do
		// not reach it and fails; the first one is elected again
		c.Steps = []c02Step{
			{Op: "publish", N: rapid.IntRange(1, 4).Draw(t, "n0"), Policy: 2}, {Op: "settle"},
			{Op: "hold"}, {Op: "leader", X: 0, Sel: 0}, // b leads an empty term (a is alive, deposed)
			{Op: "hold"}, {Op: "leader", X: 1, Sel: 0}, // c leads, b deposed without restart
			{Op: "hold"}, {Op: "publish", N: rapid.IntRange(1, 2).Draw(t, "n1"), Policy: 1}, // reaches nobody
			{Op: "crash", X: 100, Sel: 0}, {Op: "shrink", X: 100},
			{Op: "leader", X: rapid.IntRange(0, 1).Draw(t, "again"), Sel: 0},
			{Op: "publish", N: 1, Policy: 2}, {Op: "settle"}, {Op: "publish", N: 1, Policy: 2}, {Op: "settle"},
			{Op: "restart", X: 100}, {Op: "settle"}, {Op: "publish", N: 1, Policy: 2}, {Op: "settle"},
		}
		return c
	}
	if rapid.IntRange(0, 4).Draw(t, "directed3") == 0 {
		// a replica that was away across a failover fetches, in one response,
		// the tail of the old epoch and the head of the new one; it is elected
		// later and the first leader, which kept an uncommitted suffix at the
		// epoch boundary, reconciles against it
		c.Steps = []c02Step{
			{Op: "publish", N: rapid.IntRange(1, 3).Draw(t, "n0"), Policy: 2}, {Op: "settle"},
			{Op: "crash", X: 2, Sel: 0}, {Op: "shrink", X: 2},
			{Op: "publish", N: rapid.IntRange(1, 3).Draw(t, "n1"), Policy: 2}, {Op: "settle"},
			{Op: "hold"}, {Op: "publish", N: rapid.IntRange(1, 2).Draw(t, "n2"), Policy: 1},
			{Op: "crash", X: 100, Sel: 0}, {Op: "leader", X: 0, Sel: 0}, {Op: "shrink", X: 0},
			{Op: "publish", N: rapid.IntRange(1, 3).Draw(t, "n3"), Policy: 2}, {Op: "settle"},
			{Op: "restart", X: 2}, {Op: "settle"}, {Op: "expand", X: 2}, {Op: "settle"},
			{Op: "crash", X: 101, Sel: 0}, {Op: "leader", X: 0, Sel: 0}, {Op: "shrink", X: 1},
			{Op: "publish", N: 1, Policy: 2}, {Op: "settle"},
			{Op: "restart", X: 0}, {Op: "settle"}, {Op: "restart", X: 1}, {Op: "settle"},
		}
		return c
	}
	if rapid.IntRange(0, 7).Draw(t, "directed8") == 0 {
		// a leader that is deposed alive and elected again later: what it
		// remembers of its followers' positions from its first term (they held an
		// uncommitted tail then, which the term in between truncated) must not
		// count in its second term
		c.Steps = []c02Step{
			{Op: "publish", N: rapid.IntRange(1, 3).Draw(t, "n0"), Policy: 2}, {Op: "settle"},
			{Op: "crash", X: 2, Sel: 0}, // c goes away, stays in the ISR
			{Op: "publish", N: rapid.IntRange(2, 4).Draw(t, "tail"), Policy: 1}, {Op: "settle"}, // a and b hold an uncommitted tail
			{Op: "hold"}, {Op: "restart", X: 2}, // c is back but cannot catch up
			{Op: "leader", X: 1, Sel: 0}, // c leads; a (alive) and b truncate the tail
			{Op: "publish", N: 1, Policy: 2}, {Op: "settle"},
			{Op: "hold"}, {Op: "leader", X: 0, Sel: 0}, // a leads again, without a restart
			{Op: "crash", X: 1, Sel: 0}, // b goes away, stays in the ISR
			{Op: "publish", N: rapid.IntRange(1, 2).Draw(t, "n1"), Policy: 2}, {Op: "settle"}, // reaches c only
			{Op: "hold"}, {Op: "restart", X: 1}, // b is back but cannot catch up
			{Op: "crash", X: 100, Sel: 0}, {Op: "leader", X: 0, Sel: 0}, // a fails, b is elected
			{Op: "publish", N: 1, Policy: 2}, {Op: "settle"},
			{Op: "restart", X: 100}, {Op: "settle"},
		}
		return c
	}
	if rapid.IntRange(0, 7).Draw(t, "directed7") == 0 {
		// a replica outside the ISR has caught up, the leader commits one or two
		// more messages on its own while replication is stalled, and then asks
		// for the replica to be added back; the leader fails
		c.Steps = []c02Step{
			{Op: "publish", N: rapid.IntRange(1, 3).Draw(t, "n0"), Policy: 2}, {Op: "settle"},
			{Op: "crash", X: 2, Sel: 0}, {Op: "shrink", X: 2},
			{Op: "crash", X: 1, Sel: 0}, {Op: "shrink", X: 1}, // ISR {a}
			{Op: "publish", N: 1, Policy: 2}, {Op: "settle"},
			{Op: "restart", X: 2}, {Op: "settle"}, // c has caught up
			{Op: "hold"},
			{Op: "publish", N: rapid.IntRange(1, 2).Draw(t, "behind"), Policy: 2}, // committed by a alone
			{Op: "expand", X: 2},
			{Op: "leader", X: 0, Sel: 0},
			{Op: "publish", N: 1, Policy: 2}, {Op: "settle"},
			{Op: "restart", X: 1}, {Op: "settle"},
		}
		return c
	}
	if rapid.IntRange(0, 6).Draw(t, "directed6") == 0 {
		// a follower that lags in the metadata keeps fetching with the old
		// leader epoch while a replica that lacks its uncommitted tail leads
		c.Steps = []c02Step{
			{Op: "publish", N: rapid.IntRange(1, 3).Draw(t, "n0"), Policy: 2}, {Op: "settle"},
			{Op: "crash", X: 1, Sel: 0}, // b goes away
			{Op: "publish", N: rapid.IntRange(1, 3).Draw(t, "n1"), Policy: 1}, {Op: "settle"}, // a and c get them
			{Op: "hold"}, {Op: "restart", X: 1}, // b is back but cannot catch up
			{Op: "lag", X: 2}, // c stops applying metadata
			{Op: "leader", X: 0, Sel: 0}, // b is elected; c does not know
			{Op: "publish", N: rapid.IntRange(3, 5).Draw(t, "n2"), Policy: 1},
			{Op: "publish", N: rapid.IntRange(1, 2).Draw(t, "n3"), Policy: 1},
			{Op: "unlag"}, {Op: "settle"},
			{Op: "publish", N: 1, Policy: 2}, {Op: "settle"},
		}
		return c
	}
	if rapid.IntRange(0, 5).Draw(t, "directed5") == 0 {
		// a leader that lags two leader changes behind in the metadata keeps
		// accepting publishes and sees the fetches followers send to its successors
		c.Steps = []c02Step{
			{Op: "publish", N: rapid.IntRange(1, 2).Draw(t, "n0"), Policy: 2}, {Op: "settle"},
			{Op: "crash", X: 2, Sel: 0}, {Op: "shrink", X: 2}, // a's view of the ISR: {a,b}
			{Op: "publish", N: 1, Policy: 2}, {Op: "settle"},
			{Op: "restart", X: 2}, {Op: "settle"},
			{Op: "lag", X: 0}, // a stops applying metadata
			{Op: "expand", X: 2}, // ISR {a,b,c} for b and c
			{Op: "hold"}, {Op: "leader", X: 0, Sel: 0}, // b leads; a does not know
			{Op: "hold"}, {Op: "leader", X: 1, Sel: 0}, // c leads; b follows c
			{Op: "shrink", X: 0}, // a does not fetch from c: c drops it from the ISR
			{Op: "releasestale"},
			{Op: "publish", N: rapid.IntRange(1, 3).Draw(t, "n1"), Policy: 2}, {Op: "settle"},
			{Op: "publish", N: rapid.IntRange(1, 2).Draw(t, "n2"), Policy: 2}, {Op: "settle"},
			{Op: "unlag"}, {Op: "settle"},
			{Op: "publish", N: 1, Policy: 2}, {Op: "settle"},
		}
		return c
	}
	if rapid.IntRange(0, 5).Draw(t, "directed4") == 0 {
		// the old leader is deposed while it is alive and still answers requests;
		// one follower is ahead of the replica that gets elected: whose answer to
		// its epoch-end request does it act on?
		c.Steps = []c02Step{
			{Op: "publish", N: rapid.IntRange(1, 3).Draw(t, "n0"), Policy: 2}, {Op: "settle"},
			{Op: "hold"}, {Op: "leader", X: 1, Sel: 0}, {Op: "settle"}, // c leads, a and b follow
			{Op: "crash", X: 1, Sel: 0}, // b goes away
			{Op: "publish", N: rapid.IntRange(1, 4).Draw(t, "n1"), Policy: 1}, {Op: "settle"}, // c and a get them
			{Op: "hold"}, {Op: "restart", X: 1}, // b is back but cannot catch up
			{Op: "leader", X: 1, Sel: 0}, // b is elected; a learns of it while c still believes it leads
			{Op: "publish", N: rapid.IntRange(1, 3).Draw(t, "n2"), Policy: 2}, {Op: "settle"},
			{Op: "publish", N: rapid.IntRange(1, 2).Draw(t, "n3"), Policy: 2}, {Op: "settle"},
		}
		return c
	}
	n := rapid.IntRange(4, 30).Draw(t, "nsteps")
	for i := 0; i < n; i++ {
		st := c02Step{X: rapid.IntRange(0, 2).Draw(t, "x"), Sel: rapid.IntRange(0, 5).Draw(t, "sel")}
		st.Op = rapid.SampledFrom([]string{"publish", "publish", "publish", "settle", "settle", "hold", "release", "crash", "restart", "restart", "shrink", "expand", "leader", "leader", "lag", "unlag", "releasestale"}).Draw(t, "op")
		if st.Op == "publish" {
			st.N = rapid.IntRange(1, 5).Draw(t, "n")
			st.Policy = rapid.IntRange(1, 2).Draw(t, "policy")
		}
		c.Steps = append(c.Steps, st)
	}
	return c
}

type c02Node struct {
	lagging bool // does not apply metadata operations until "unlag" (a server that is behind in applying the Raft log)
	id      string
	dir     string
	s       *Server
	applied int
	up      bool
	hws     []int64 // HWs this incarnation has held (for the stale checkpoint)
	lastHW  int64
}

type c02Entry struct {
	Off   int64
	Val   string
	Epoch uint64
}

type c02World struct {
	maxRepl int64
	ns     *gnatsd.Server
	name   string
	nsName string
	nodes  map[string]*c02Node
	ops    [][]byte
	labels []string
	hist   []string
}

var (
	c02NATSOnce sync.Once
	c02NS       *gnatsd.Server
	c02Seq      int
)

func (w *c02World) start(n *c02Node) error {
	s, err := vfL1(n.dir, n.id, w.ns, func(c *Config) {
		c.Clustering.Namespace = w.nsName
		if w.maxRepl > 0 {
			c.Clustering.ReplicationMaxBytes = w.maxRepl
		}
	})
	if err != nil {
		return err
	}
	n.s = s
	n.up = true
	n.hws = nil
	n.lastHW = -1
	return nil
}

func (w *c02World) part(n *c02Node) *partition {
	if n.s == nil {
		return nil
	}
	return n.s.metadata.GetPartition(w.name, 0)
}

func (w *c02World) applyOne(n *c02Node, i int, recovered bool) error {
	op := &proto.RaftLog{}
	if err := op.Unmarshal(w.ops[i]); err != nil { // every server gets its own copy, as Raft delivers bytes
		return err
	}
	_, err := n.s.apply(op, uint64(i+1), recovered)
	return err
}

func (w *c02World) catchUp(n *c02Node) error {
	for n.applied < len(w.ops) {
		if err := w.applyOne(n, n.applied, false); err != nil {
			return fmt.Errorf("%s applying op %d (%s): %v", n.id, n.applied+1, w.labels[n.applied], err)
		}
		n.applied++
	}
	return nil
}

func (w *c02World) propose(op *proto.RaftLog, label string, order []string) error {
	raw, err := op.Marshal()
	if err != nil {
		return err
	}
	w.ops = append(w.ops, raw)
	w.labels = append(w.labels, label)
	for _, id := range order {
		n := w.nodes[id]
		if n.up && !n.lagging {
			if err := w.catchUp(n); err != nil {
				return err
			}
		}
	}
	return nil
}

func c02ReadLog(p *partition) ([]c02Entry, error) {
	var out []c02Entry
	l := p.log
	if l.NewestOffset() < 0 {
		return nil, nil
	}
	r, err := l.NewReader(l.OldestOffset(), true)
	if err != nil {
		return nil, err
	}
	ctx, cancel := context.WithCancel(context.Background())
	cancel()
	hb := make([]byte, 28)
	for {
		m, off, _, ep, err := r.ReadMessage(ctx, hb)
		if err != nil {
			return out, nil
		}
		out = append(out, c02Entry{Off: off, Val: string(m.Value()), Epoch: ep})
	}
}

func runC02(c c02Case, o *vfutil.Obs) *vfutil.Failure {
	c02NATSOnce.Do(func() { c02NS = vfStartNATS() })
	root, _ := os.MkdirTemp(scratchRoot(), "c02")
	// the directory stays until the driver removes the shard's scratch space: a
	// straggling replication goroutine that writes after the case has ended
	// would otherwise panic the process
	_ = root
	c02Seq++
	w := &c02World{ns: c02NS, name: fmt.Sprintf("rep%d", c02Seq), nsName: fmt.Sprintf("c02n%d", c02Seq), nodes: map[string]*c02Node{}, maxRepl: c.MaxRepl}
	var parked []*c02Parked
	defer func() {
		for _, r := range parked {
			r.cancel()
		}
	}()
	ids := []string{"a", "b", "c"}
	for _, id := range ids {
		n := &c02Node{id: id, dir: filepath.Join(root, id)}
		w.nodes[id] = n
		if err := w.start(n); err != nil {
			return vfutil.Failf("harness/start", "%v", err)
		}
	}
	defer func() {
		for _, n := range w.nodes {
			if n.up {
				vfL1Close(n.s)
			}
		}
	}()
	create := &proto.RaftLog{Op: proto.Op_CREATE_STREAM, CreateStreamOp: &proto.CreateStreamOp{Stream: &proto.Stream{Name: w.name, Subject: w.name,
		Partitions: []*proto.Partition{{Subject: w.name, Stream: w.name, Id: 0, ReplicationFactor: 3, Replicas: []string{"a", "b", "c"}, Isr: []string{"a", "b", "c"}, Leader: "a"}}}}}
	if err := w.propose(create, "create", []string{"a", "b", "c"}); err != nil {
		return vfutil.Failf("harness/create", "%v", err)
	}

	nc, err := nats.Connect(c02NS.ClientURL())
	if err != nil {
		return vfutil.Failf("harness/nats", "%v", err)
	}
	defer nc.Close()
	inbox := nats.NewInbox()
	var (
		mu   sync.Mutex
		acks []*client.Ack
	)
	sub, _ := nc.Subscribe(inbox, func(m *nats.Msg) {
		if a, err := proto.UnmarshalAck(m.Data); err == nil {
			mu.Lock()
			acks = append(acks, a)
			mu.Unlock()
		}
	})
	defer sub.Unsubscribe()
	nc.Flush()

	// ---- model of the committed metadata (what the controller has committed)
	leader := "a"
	isr := map[string]bool{"a": true, "b": true, "c": true}
	heldBy := map[string]bool{} // replication paused on that replica (it looks dead to its followers)
	held := false
	_ = held
	committed := map[int64]string{}   // offset -> value that must be served there forever
	policyOf := map[string]int{}      // value -> ack policy it was published with
	removedAt := map[string]time.Time{} // when a replica left the ISR
	seq := 0
	leaderChanges, rejoinWithTail, staleCheckpoint, learnedBoundary := 0, false, false, false
	pickNode := func(x int) *c02Node {
		switch x {
		case 100: // "the current leader"
			return w.nodes[leader]
		case 101:
			return w.nodes[leader]
		}
		return w.nodes[ids[x%3]]
	}
	leaderPart := func() *partition {
		n := w.nodes[leader]
		if !n.up {
			return nil
		}
		p := w.part(n)
		if p == nil || !p.IsLeader() {
			return nil
		}
		return p
	}

	check := func(step int) *vfutil.Failure {
		logs := map[string][]c02Entry{}
		hws := map[string]int64{}
		for _, id := range ids {
			n := w.nodes[id]
			if !n.up {
				continue
			}
			p := w.part(n)
			if p == nil || p.IsPaused() {
				continue
			}
			l, err := c02ReadLog(p)
			if err != nil {
				return vfutil.Failf("C02/log-unreadable", "step %d, history %v: replica %s: %v", step, w.hist, id, err)
			}
			hw := p.log.HighWatermark()
			// a replica that is (re)joining may still hold a tail it is about to
			// truncate; HW <= LEO is required once it follows or leads
			logs[id] = l
			hws[id] = hw
			if hw < n.lastHW {
				return vfutil.Failf("C02/hw-moved-backwards", "step %d, history %v: replica %s HW %d -> %d within one incarnation", step, w.hist, id, n.lastHW, hw)
			}
			if hw > n.lastHW {
				n.hws = append(n.hws, hw)
			}
			n.lastHW = hw
			for i := 1; i < len(l); i++ {
				if l[i].Off != l[i-1].Off+1 {
					return vfutil.Failf("C02/log-not-contiguous", "step %d, history %v: replica %s offsets %d,%d", step, w.hist, id, l[i-1].Off, l[i].Off)
				}
				if l[i].Epoch < l[i-1].Epoch {
					return vfutil.Failf("C02/epochs-decrease-along-log", "step %d, history %v: replica %s offset %d epoch %d after epoch %d", step, w.hist, id, l[i].Off, l[i].Epoch, l[i-1].Epoch)
				}
			}
		}
		at := func(l []c02Entry, off int64) *c02Entry {
			if len(l) == 0 || off < l[0].Off || off > l[len(l)-1].Off {
				return nil
			}
			return &l[off-l[0].Off]
		}
		// 2. no divergence at or below both high watermarks
		for i, a := range ids {
			for _, b := range ids[i+1:] {
				la, oka := logs[a]
				lb, okb := logs[b]
				if !oka || !okb {
					continue
				}
				lim := hws[a]
				if hws[b] < lim {
					lim = hws[b]
				}
				for off := int64(0); off <= lim; off++ {
					ea, eb := at(la, off), at(lb, off)
					if ea == nil || eb == nil {
						// a follower adopts the leader's HW before it has fetched the
						// messages up to it: only offsets both replicas hold are compared
						continue
					}
					if ea.Val != eb.Val || ea.Epoch != eb.Epoch {
						return vfutil.Failf("C02/replicas-diverge-below-hw", "step %d, history %v: offset %d (<= HW %d of %s and %d of %s): %s holds %q@e%d, %s holds %q@e%d", step, w.hist, off, hws[a], a, hws[b], b, a, ea.Val, ea.Epoch, b, eb.Val, eb.Epoch)
					}
				}
			}
		}
		// 1. the current leader serves every committed message
		if lp := leaderPart(); lp != nil {
			ll := logs[leader]
			offs := make([]int64, 0, len(committed))
			for off := range committed {
				offs = append(offs, off)
			}
			sort.Slice(offs, func(i, j int) bool { return offs[i] < offs[j] })
			for _, off := range offs {
				e := at(ll, off)
				if e == nil {
					return vfutil.Failf("C02/committed-message-lost", "step %d, history %v: %q was committed at offset %d but leader %s (newest %d) does not hold that offset", step, w.hist, committed[off], off, leader, lp.log.NewestOffset())
				}
				if e.Val != committed[off] {
					return vfutil.Failf("C02/committed-message-replaced", "step %d, history %v: %q was committed at offset %d but leader %s serves %q there", step, w.hist, committed[off], off, leader, e.Val)
				}
			}
		}
		// acks: an ALL ack commits (offset, value)
		mu.Lock()
		got := acks
		acks = nil
		mu.Unlock()
		for _, a := range got {
			if a.AckError != client.Ack_OK || a.AckPolicy != client.AckPolicy_ALL {
				continue
			}
			if prev, ok := committed[a.Offset]; ok && prev != a.CorrelationId {
				return vfutil.Failf("C02/two-messages-committed-at-one-offset", "step %d, history %v: offset %d acknowledged for %q and %q", step, w.hist, a.Offset, prev, a.CorrelationId)
			}
			committed[a.Offset] = a.CorrelationId
		}
		return nil
	}

	settle := func() bool {
		lp := leaderPart()
		if lp == nil {
			return true
		}
		for _, bound := range []time.Duration{2 * time.Second, 20 * time.Second} {
			deadline := time.Now().Add(bound)
			for time.Now().Before(deadline) {
				ok := true
				ln, lh := lp.log.NewestOffset(), lp.log.HighWatermark()
				for _, id := range ids {
					n := w.nodes[id]
					if id == leader || !n.up || n.lagging {
						continue
					}
					p := w.part(n)
					if p == nil {
						continue
					}
					if p.log.NewestOffset() != ln || p.log.HighWatermark() != lh {
						ok = false
					}
				}
				// everything in the ISR has it => the HW is the end of the log
				allISRUp := true
				for r := range isr {
					if !w.nodes[r].up {
						allISRUp = false
					}
				}
				if allISRUp && lh != ln {
					ok = false
				}
				if ok {
					return true
				}
				time.Sleep(300 * time.Microsecond)
			}
		}
		return false
	}

	for step, st := range c.Steps {
		switch st.Op {
		case "publish":
			lp := leaderPart()
			if lp == nil {
				continue
			}
			before := lp.log.NewestOffset()
			for i := 0; i < st.N; i++ {
				seq++
				val := fmt.Sprintf("v%d", seq)
				pol := client.AckPolicy_LEADER
				if st.Policy == 2 {
					pol = client.AckPolicy_ALL
				}
				policyOf[val] = st.Policy
				data, _ := proto.MarshalPublish(&client.Message{Value: []byte(val), AckInbox: inbox, CorrelationId: val, AckPolicy: pol})
				nc.Publish(w.name, data)
			}
			nc.Flush()
			deadline := time.Now().Add(20 * time.Second)
			for lp.log.NewestOffset() < before+int64(st.N) && time.Now().Before(deadline) {
				time.Sleep(100 * time.Microsecond)
			}
			w.hist = append(w.hist, fmt.Sprintf("publish(%d,%s)->%s", st.N, map[int]string{1: "LEADER", 2: "ALL"}[st.Policy], leader))
			time.Sleep(time.Millisecond)
		case "settle":
			if heldBy[leader] {
				continue
			}
			stuck := false
			for _, id := range ids {
				if n := w.nodes[id]; n.up && n.lagging && isr[id] && id != leader {
					stuck = true // an in-sync replica that does not follow: nothing can be committed
				}
			}
			if stuck {
				time.Sleep(5 * time.Millisecond)
				w.hist = append(w.hist, "settle-skipped")
				continue
			}
			if !settle() {
				o.Inconclusive("replicas did not converge within the bound")
				w.hist = append(w.hist, "settle-timeout")
				if os.Getenv("VERIF_HIST") != "" {
					fmt.Println("history:", w.hist)
				}
				return nil
			}
			// everything at or below the leader's HW is committed from now on
			if lp := leaderPart(); lp != nil {
				l, _ := c02ReadLog(lp)
				hw := lp.log.HighWatermark()
				for _, e := range l {
					if e.Off <= hw {
						if prev, ok := committed[e.Off]; ok && prev != e.Val {
							return vfutil.Failf("C02/committed-message-replaced", "step %d, history %v: offset %d was committed as %q and is now %q on leader %s", step, w.hist, e.Off, prev, e.Val, leader)
						}
						committed[e.Off] = e.Val
					}
				}
			}
			w.hist = append(w.hist, "settle")
		case "hold":
			if lp := leaderPart(); lp != nil && !heldBy[leader] {
				lp.pauseReplication()
				heldBy[leader] = true
				w.hist = append(w.hist, "hold")
			}
		case "park":
			// a committed reader on a replica's log, from the oldest offset, that
			// keeps reading (and blocks at the replica's HW) from now on
			n := pickNode(st.X)
			p := w.part(n)
			if !n.up || p == nil {
				continue
			}
			rd, err := p.log.NewReader(0, false)
			if err != nil {
				return vfutil.Failf("C03/reader-open-error", "step %d, history %v: committed reader on %s: %v", step, w.hist, n.id, err)
			}
			ctx, cancel := context.WithCancel(context.Background())
			pr := &c02Parked{node: n.id, part: p, cancel: cancel}
			parked = append(parked, pr)
			go func() {
				hb := make([]byte, 28)
				for {
					m, off, _, _, err := rd.ReadMessage(ctx, hb)
					pr.mu.Lock()
					if err != nil {
						pr.err = err
						pr.mu.Unlock()
						return
					}
					pr.offs = append(pr.offs, off)
					pr.vals = append(pr.vals, string(m.Value()))
					pr.mu.Unlock()
				}
			}()
			w.hist = append(w.hist, "park("+n.id+")")
			o.Label("committed-reader-parked-on-a-replica")
		case "lag":
			// the server stops applying metadata operations: it keeps its view of
			// who leads (a leader that does not learn it has been replaced)
			n := pickNode(st.X)
			if n.up && !n.lagging {
				n.lagging = true
				w.hist = append(w.hist, "lag("+n.id+")")
				o.Label("server-lags-in-metadata")
			}
		case "unlag":
			for _, id := range ids {
				n := w.nodes[id]
				if n.up && n.lagging {
					n.lagging = false
					if err := w.catchUp(n); err != nil {
						return vfutil.Failf("C02/apply-error", "step %d, history %v: %v", step, w.hist, err)
					}
					heldBy[id] = false
					w.hist = append(w.hist, "unlag("+id+")")
				}
			}
		case "releasestale":
			// a lagging server that still believes it leads serves replication again
			for _, id := range ids {
				n := w.nodes[id]
				if n.up && n.lagging {
					if p := w.part(n); p != nil && p.IsLeader() {
						p.mu.Lock()
						p.pause = false
						p.mu.Unlock()
						w.hist = append(w.hist, "release-stale("+id+")")
						o.Label("stale-leader-serves-replication")
					}
				}
			}
		case "release":
			if lp := leaderPart(); lp != nil && heldBy[leader] {
				lp.mu.Lock()
				lp.pause = false
				lp.mu.Unlock()
				heldBy[leader] = false
				w.hist = append(w.hist, "release")
			}
		case "crash":
			n := pickNode(st.X)
			if !n.up {
				continue
			}
			downs := 0
			for _, m := range w.nodes {
				if !m.up {
					downs++
				}
			}
			if downs >= 2 {
				continue
			}
			p := w.part(n)
			tail := p != nil && p.log.NewestOffset() > p.log.HighWatermark()
			vfL1Close(n.s)
			n.up = false
			n.lagging = false
			n.s = nil
			heldBy[n.id] = false
			// a real crash leaves a HW checkpoint that is up to 5 s old: rewrite
			// it with an earlier HW this incarnation had held
			if len(n.hws) > 0 && st.Sel > 0 {
				old := n.hws[(st.Sel-1)%len(n.hws)]
				if old < n.lastHW {
					staleCheckpoint = true
				}
				os.WriteFile(filepath.Join(n.dir, "streams", w.name, "0", "replication-offset-checkpoint"), []byte(fmt.Sprint(old)), 0o644)
			}
			w.hist = append(w.hist, fmt.Sprintf("crash(%s%s)", n.id, map[bool]string{true: ",uncommitted-tail", false: ""}[tail]))
		case "restart":
			n := pickNode(st.X)
			if st.X >= 100 { // directed cases: restart whoever is down
				n = nil
				for _, id := range ids {
					if !w.nodes[id].up {
						n = w.nodes[id]
						break
					}
				}
			}
			if n == nil || n.up {
				continue
			}
			if vfutil.IsExcluded("c02-hw-truncation-fallback") && n.id != leader && leaderPart() == nil {
				// open finding: a follower that cannot reach a leader truncates to
				// its (lagging) HW; constructed away so the search goes on
				o.Excluded("c02-hw-truncation-fallback")
				continue
			}
			if err := w.start(n); err != nil {
				return vfutil.Failf("harness/restart", "%v", err)
			}
			for i := range w.ops {
				if err := w.applyOne(n, i, true); err != nil {
					return vfutil.Failf("C02/replay-error", "step %d, history %v: %s replaying op %d (%s): %v", step, w.hist, n.id, i+1, w.labels[i], err)
				}
			}
			n.applied = len(w.ops)
			p0 := w.part(n)
			tail := p0 != nil && p0.log.NewestOffset() > p0.log.HighWatermark()
			if _, _, err := n.s.finishedRecovery(uint64(len(w.ops))); err != nil {
				return vfutil.Failf("C02/recovery-error", "step %d, history %v: %s: %v", step, w.hist, n.id, err)
			}
			if tail && n.id != leader {
				rejoinWithTail = true
				o.Label("rejoin-with-uncommitted-tail")
			}
			w.hist = append(w.hist, fmt.Sprintf("restart(%s)", n.id))
		case "shrink":
			n := pickNode(st.X)
			if st.X >= 100 { // directed: shrink whoever is down
				n = nil
				for _, id := range ids {
					if !w.nodes[id].up && isr[id] {
						n = w.nodes[id]
					}
				}
			}
			if n == nil || n.id == leader || !isr[n.id] || leaderPart() == nil {
				continue
			}
			if n.up && !heldBy[leader] && !n.lagging {
				continue // the leader only shrinks a replica that is down or lagging
			}
			_, le := leaderPart().GetLeader()
			op := &proto.RaftLog{Op: proto.Op_SHRINK_ISR, ShrinkISROp: &proto.ShrinkISROp{Stream: w.name, Partition: 0, ReplicaToRemove: n.id, Leader: leader, LeaderEpoch: le}}
			if err := w.propose(op, "shrink", ids); err != nil {
				return vfutil.Failf("C02/apply-error", "step %d, history %v: %v", step, w.hist, err)
			}
			delete(isr, n.id)
			removedAt[n.id] = time.Now()
			w.hist = append(w.hist, fmt.Sprintf("shrink(%s)", n.id))
		case "expand":
			n := pickNode(st.X)
			lp := leaderPart()
			if n == nil || lp == nil || isr[n.id] || !n.up || n.id == leader {
				continue
			}
			// only a replica the leader has seen caught up since it left the ISR
			lp.mu.RLock()
			r := lp.replicators[n.id]
			lp.mu.RUnlock()
			if r == nil {
				continue
			}
			r.mu.RLock()
			caught := r.lastCaughtUp
			r.mu.RUnlock()
			if !caught.After(removedAt[n.id]) {
				continue
			}
			// the leader's own rule about the replica's position (the real code decides)
			if !r.hasAllCommitted() {
				o.Label("expand-refused-replica-lacks-committed-messages")
				continue
			}
			_, le := lp.GetLeader()
			op := &proto.RaftLog{Op: proto.Op_EXPAND_ISR, ExpandISROp: &proto.ExpandISROp{Stream: w.name, Partition: 0, ReplicaToAdd: n.id, Leader: leader, LeaderEpoch: le}}
			if err := w.propose(op, "expand", ids); err != nil {
				return vfutil.Failf("C02/apply-error", "step %d, history %v: %v", step, w.hist, err)
			}
			isr[n.id] = true
			behind := w.part(n).log.NewestOffset() < lp.log.NewestOffset()
			w.hist = append(w.hist, fmt.Sprintf("expand(%s%s)", n.id, map[bool]string{true: ",behind", false: ""}[behind]))
			if behind {
				o.Label("expand-while-behind")
			}
		case "leader":
			// the controller elects from the ISR, never the old leader, and only
			// after the old leader has gone
			if w.nodes[leader].up && !heldBy[leader] {
				continue
			}
			deposedAlive := w.nodes[leader].up
			var cands []string
			for _, id := range ids {
				if isr[id] && id != leader && w.nodes[id].up {
					cands = append(cands, id)
				}
			}
			if len(cands) == 0 {
				continue
			}
			nl := cands[st.X%len(cands)]
			if p := w.part(w.nodes[nl]); p != nil && p.log.NewestOffset() >= 0 {
				// did the candidate learn the current epoch's messages by replication?
				learnedBoundary = true
			}
			op := &proto.RaftLog{Op: proto.Op_CHANGE_LEADER, ChangeLeaderOp: &proto.ChangeLeaderOp{Stream: w.name, Partition: 0, Leader: nl}}
			order := []string{nl}
			for _, id := range ids {
				if id != nl {
					order = append(order, id)
				}
			}
			if st.Sel%2 == 1 && vfutil.IsExcluded("c02-hw-truncation-fallback") {
				o.Excluded("c02-hw-truncation-fallback")
			} else if st.Sel%2 == 1 { // followers learn about the change before the new leader does
				order = append(order[1:], nl)
				o.Label("followers-apply-leader-change-first")
			}
			if err := w.propose(op, "leader", order); err != nil {
				return vfutil.Failf("C02/apply-error", "step %d, history %v: %v", step, w.hist, err)
			}
			if deposedAlive {
				o.Label("leader-deposed-while-alive")
			}
			leader = nl
			// the test-only pause switch is per partition object: clear it on whoever leads now
			if np := w.part(w.nodes[nl]); np != nil {
				np.mu.Lock()
				np.pause = false
				np.mu.Unlock()
			}
			heldBy[nl] = false
			leaderChanges++
			w.hist = append(w.hist, fmt.Sprintf("leader(%s%s)", nl, map[bool]string{true: ",followers-first", false: ""}[st.Sel%2 == 1 && !vfutil.IsExcluded("c02-hw-truncation-fallback")]))
		}
		if f := check(step); f != nil {
			return f
		}
	}
	// final: bring everything up (the leader first, so that followers can reach
	// it), settle, check once more
	order := []string{leader}
	for _, id := range ids {
		if id != leader {
			order = append(order, id)
		}
	}
	for _, id := range order {
		n := w.nodes[id]
		if !n.up {
			if err := w.start(n); err != nil {
				return vfutil.Failf("harness/restart", "%v", err)
			}
			for i := range w.ops {
				if err := w.applyOne(n, i, true); err != nil {
					return vfutil.Failf("C02/replay-error", "history %v: %s replaying op %d: %v", w.hist, n.id, i+1, err)
				}
			}
			n.applied = len(w.ops)
			if _, _, err := n.s.finishedRecovery(uint64(len(w.ops))); err != nil {
				return vfutil.Failf("C02/recovery-error", "history %v: %v", w.hist, err)
			}
			w.hist = append(w.hist, "final-restart("+id+")")
		}
	}
	if lp := leaderPart(); lp != nil && heldBy[leader] {
		lp.mu.Lock()
		lp.pause = false
		lp.mu.Unlock()
		heldBy[leader] = false
	}
	if leaderPart() != nil {
		if settle() {
			w.hist = append(w.hist, "final-settle")
		}
	}
	if f := check(len(c.Steps)); f != nil {
		return f
	}
	// committed readers parked on replicas: whatever the replica's HW covers by
	// now must have reached them, once each and in order (only readers whose
	// server was not restarted: a restart closes the log under them)
	for _, pr := range parked {
		n := w.nodes[pr.node]
		if !n.up || w.part(n) != pr.part {
			continue
		}
		want, _ := c02ReadLog(pr.part)
		hw := pr.part.log.HighWatermark()
		k := 0
		for _, e := range want {
			if e.Off <= hw {
				k++
			}
		}
		deadline := time.Now().Add(20 * time.Second)
		for {
			pr.mu.Lock()
			got, err := len(pr.offs), pr.err
			pr.mu.Unlock()
			if got >= k || err != nil || time.Now().After(deadline) {
				break
			}
			time.Sleep(time.Millisecond)
		}
		pr.mu.Lock()
		offs, vals, err := append([]int64{}, pr.offs...), append([]string{}, pr.vals...), pr.err
		pr.mu.Unlock()
		if err != nil {
			return vfutil.Failf("C03/replica-reader/error", "history %v: the committed reader parked on %s ended with %v after offsets %v (the replica's HW is %d, its log ends at %d)", w.hist, pr.node, err, offs, hw, pr.part.log.NewestOffset())
		}
		if len(offs) < k {
			return vfutil.Failf("C03/replica-reader/committed-message-not-delivered/bounded-liveness(20s)", "history %v: the committed reader parked on %s delivered offsets %v, the replica's HW %d covers %d messages", w.hist, pr.node, offs, hw, k)
		}
		for i := range offs {
			if i >= len(want) || offs[i] != want[i].Off || vals[i] != want[i].Val {
				return vfutil.Failf("C03/replica-reader/delivered-wrong", "history %v: the committed reader parked on %s delivered %v %v, the replica's log holds %v", w.hist, pr.node, offs, vals, want)
			}
			if offs[i] > hw {
				return vfutil.Failf("C03/replica-reader/above-hw", "history %v: the committed reader parked on %s delivered offset %d above the replica's HW %d", w.hist, pr.node, offs[i], hw)
			}
		}
		o.Label("replica-reader-checked")
	}
	if os.Getenv("VERIF_HIST") != "" {
		fmt.Println("history:", w.hist)
	}
	if leaderChanges >= 2 && rejoinWithTail {
		o.NonTrivial()
	}
	if leaderChanges >= 1 {
		o.Label("leader-change")
	}
	if leaderChanges >= 2 {
		o.Label("two-leader-changes")
	}
	if staleCheckpoint {
		o.Label("stale-hw-checkpoint")
	}
	if learnedBoundary {
		o.Label("new-leader-had-replicated-data")
	}
	_ = strings.Join
	return nil
}

func TestVerifC02(t *testing.T) {
	defer func() {
		if c02NS != nil {
			c02NS.Shutdown()
		}
	}()
	vfutil.Run(t, vfutil.Spec[c02Case]{ID: "C02", Gen: genC02, Run: runC02, Journal: true})
}


// C03c: a subscription served by a replica. A follower that is out of the ISR
// catches up in several small fetches while a committed reader is blocked at its
// HW: the leader's HW, which every fetch response carries, is ahead of what the
// follower holds. Runs on the C02 world; failures of the reader are reported
// for C03.
func genC03c(t *rapid.T) c02Case {
	c := c02Case{MaxRepl: int64(rapid.SampledFrom([]int{150, 300, 600}).Draw(t, "maxrepl"))}
	x := rapid.IntRange(1, 2).Draw(t, "x")
	c.Steps = []c02Step{
		{Op: "publish", N: rapid.IntRange(1, 3).Draw(t, "n0"), Policy: 2}, {Op: "settle"},
		{Op: "hold"}, {Op: "shrink", X: 1}, {Op: "shrink", X: 2}, // the leader alone is in sync
		{Op: "park", X: x},
	}
	if rapid.Bool().Draw(t, "both") {
		c.Steps = append(c.Steps, c02Step{Op: "park", X: 3 - x})
	}
	c.Steps = append(c.Steps,
		c02Step{Op: "publish", N: rapid.IntRange(4, 14).Draw(t, "n1"), Policy: 2}, // committed by the leader alone
		c02Step{Op: "release"}, c02Step{Op: "settle"})
	if rapid.Bool().Draw(t, "more") {
		c.Steps = append(c.Steps, c02Step{Op: "publish", N: rapid.IntRange(1, 4).Draw(t, "n2"), Policy: 2}, c02Step{Op: "settle"})
	}
	return c
}

func runC03c(c c02Case, o *vfutil.Obs) *vfutil.Failure {
	f := runC02(c, o)
	if f == nil {
		o.NonTrivial()
	}
	return f
}

func TestVerifC03c(t *testing.T) {
	defer func() {
		if c02NS != nil {
			c02NS.Shutdown()
		}
	}()
	vfutil.Run(t, vfutil.Spec[c02Case]{ID: "C03", Gen: genC03c, Run: runC03c, Journal: true})
}
