//go:build verif

package server

import (
	"bytes"
	"errors"
	"fmt"
	"os"
	"sort"
	"sync"
	"testing"
	"time"

	client "github.com/liftbridge-io/liftbridge-api/v2/go"
	gnatsd "github.com/nats-io/nats-server/v2/server"
	"github.com/nats-io/nats.go"

	proto "github.com/liftbridge-io/liftbridge/server/protocol"
	"github.com/liftbridge-io/liftbridge/server/vfutil"
	"pgregory.net/rapid"
)

// vfL1 builds a bare server with NATS connections: real partitions run their
// leader/follower loops, Raft is replaced by the harness feeding Server.apply.
func vfL1(dir, id string, ns *gnatsd.Server, mut func(*Config)) (*Server, error) {
	c := vfConfig(dir, id)
	c.NATS.Servers = []string{ns.ClientURL()}
	c.Clustering.Namespace = "vfl1"
	c.Clustering.ReplicaMaxLagTime = time.Hour
	c.Clustering.ReplicaMaxLeaderTimeout = time.Hour
	c.Clustering.ReplicaFetchTimeout = 50 * time.Millisecond
	c.Clustering.ReplicaMaxIdleWait = 10 * time.Millisecond
	if mut != nil {
		mut(c)
	}
	s := New(c)
	s.api = &apiServer{Server: s}
	if err := s.createNATSConns(); err != nil {
		return nil, err
	}
	return s, nil
}

func vfL1Close(s *Server) {
	s.metadata.Reset()
	s.closeNATSConns()
}

// ---------------------------------------------------------------------- C04

type c04Msg struct {
	Policy int `json:"policy"` // 0 NONE, 1 LEADER, 2 ALL
	Size   int `json:"size"`   // 0 small, 1 around the replication limit, 2 too large, 3 value within the limit but payload above it, 4 a value the encryption handler cannot seal (cases with Enc)
	Exp    int `json:"exp"`    // OCC only: 0 waive, 1 next, 2 stale, 3 future
}

type c04Op struct {
	Op   string   `json:"op"` // publish | report | shrink | expand
	Msgs []c04Msg `json:"msgs,omitempty"`
	Rep  int      `json:"rep,omitempty"` // 0 b, 1 c
	Frac int      `json:"frac,omitempty"`
}

type c04Case struct {
	RF     int     `json:"rf"`     // 1 or 3
	MinISR int     `json:"minisr"` // 1..3
	Batch  int     `json:"batch"`  // BatchMaxMessages
	OCC    bool    `json:"occ"`
	Enc    bool    `json:"enc,omitempty"` // the leader seals values with a handler that fails for marked values
	Ops    []c04Op `json:"ops"`
}

// c04Codec stands in for the encryption handler of an encrypted stream: it
// stores values as they are (so the rest of the model is unchanged) and fails
// for values that carry the marker - the only way to reach the "failed
// encryption" rejection, which the real handler produces only when the system
// random source fails.
type c04Codec struct{}

var c04Unsealable = []byte("|UNSEALABLE|")

func (c04Codec) Seal(b []byte) ([]byte, error) {
	if bytes.Contains(b, c04Unsealable) {
		return nil, errors.New("verif: injected encryption failure")
	}
	return append([]byte{}, b...), nil
}

func (c04Codec) Read(b []byte) ([]byte, error) { return b, nil }

func genC04(t *rapid.T) c04Case {
	c := c04Case{RF: rapid.SampledFrom([]int{1, 2, 3, 3, 3}).Draw(t, "rf"), Batch: rapid.SampledFrom([]int{1, 4, 1024}).Draw(t, "batch"), OCC: rapid.IntRange(0, 4).Draw(t, "occ") == 0}
	c.MinISR = rapid.SampledFrom([]int{1, 1, 2, 2, 3}).Draw(t, "minisr") // may exceed the replication factor: nothing can be committed then
	c.Enc = rapid.IntRange(0, 3).Draw(t, "enc") == 0
	n := rapid.IntRange(2, 18).Draw(t, "nops")
	for i := 0; i < n; i++ {
		kinds := []string{"publish", "publish", "publish", "bounce"}
		if c.RF > 1 {
			kinds = append(kinds, "report", "report", "report", "shrink", "expand", "stalereport")
		}
		op := c04Op{Op: rapid.SampledFrom(kinds).Draw(t, "op"), Rep: rapid.IntRange(0, 1).Draw(t, "rep"), Frac: rapid.IntRange(0, 100).Draw(t, "frac")}
		if op.Op == "publish" {
			k := rapid.IntRange(1, 5).Draw(t, "k")
			for j := 0; j < k; j++ {
				m := c04Msg{Policy: rapid.IntRange(0, 2).Draw(t, "policy"), Size: rapid.SampledFrom([]int{0, 0, 0, 0, 1, 2, 3, 3}).Draw(t, "size")}
				if c.Enc && rapid.IntRange(0, 3).Draw(t, "unsealable") == 0 {
					m.Size = 4
				}
				if c.OCC {
					m.Exp = rapid.SampledFrom([]int{0, 1, 1, 1, 2, 3}).Draw(t, "exp")
					if m.Policy == 0 {
						m.Policy = 1 // the API refuses NONE on OCC streams
					}
				}
				op.Msgs = append(op.Msgs, m)
			}
		}
		c.Ops = append(c.Ops, op)
	}
	return c
}

const c04MaxBytes = 600

type c04Pending struct {
	corr     string
	policy   int
	value    string
	accepted bool
	reject   client.Ack_Error
	offset   int64
	step     int
	acks     []*client.Ack
	wantAck  bool // model: a positive ack is due (LEADER: once stored; ALL: once committed)
	optional bool // the leader's partition was recreated while the ack was pending: it may never be sent
}

var (
	c04NATSOnce sync.Once
	c04NS       *gnatsd.Server
	c04Seq      int
)

func runC04(c c04Case, o *vfutil.Obs) *vfutil.Failure {
	c04NATSOnce.Do(func() { c04NS = vfStartNATS() })
	dir, _ := os.MkdirTemp(scratchRoot(), "c04")
	_ = dir // stays until the driver removes the shard scratch space (stragglers may still write)
	c04Seq++
	s, err := vfL1(dir, "a", c04NS, func(cfg *Config) {
		cfg.Clustering.Namespace = fmt.Sprintf("c04n%d", c04Seq)
		cfg.Clustering.ReplicationMaxBytes = c04MaxBytes
		cfg.BatchMaxMessages = c.Batch
		cfg.Clustering.MinISR = c.MinISR
	})
	if err != nil {
		return vfutil.Failf("harness/l1", "%v", err)
	}
	defer vfL1Close(s)
	name := fmt.Sprintf("ack%d", c04Seq)
	replicas := []string{"a", "b", "c"}[:c.RF]
	index := uint64(7) // the partition's leader epoch: older epochs exist (operation stalereport)
	cfgp := &proto.StreamConfig{MinIsr: &proto.NullableInt32{Value: int32(c.MinISR)}}
	if c.OCC {
		cfgp.OptimisticConcurrencyControl = &proto.NullableBool{Value: true}
	}
	create := &proto.RaftLog{Op: proto.Op_CREATE_STREAM, CreateStreamOp: &proto.CreateStreamOp{Stream: &proto.Stream{Name: name, Subject: name, Config: cfgp,
		Partitions: []*proto.Partition{{Subject: name, Stream: name, Id: 0, ReplicationFactor: int32(c.RF), Replicas: append([]string{}, replicas...), Isr: append([]string{}, replicas...), Leader: "a"}}}}}
	if _, err := s.apply(create, index, false); err != nil {
		return vfutil.Failf("harness/create", "%v", err)
	}
	p := s.metadata.GetPartition(name, 0)
	if p == nil || !p.IsLeader() {
		return vfutil.Failf("harness/create", "partition not leading")
	}
	_, leaderEpoch := p.GetLeader()
	if c.Enc {
		// (nothing has been published yet: the message loop is idle)
		p.encryptionHandler = c04Codec{}
		o.Label("sealing-handler-installed")
	}

	nc, err := nats.Connect(c04NS.ClientURL())
	if err != nil {
		return vfutil.Failf("harness/nats", "%v", err)
	}
	defer nc.Close()
	inbox := nats.NewInbox()
	var (
		mu      sync.Mutex
		arrived []*client.Ack
	)
	sub, err := nc.Subscribe(inbox, func(m *nats.Msg) {
		ack, err := proto.UnmarshalAck(m.Data)
		if err == nil {
			mu.Lock()
			arrived = append(arrived, ack)
			mu.Unlock()
		}
	})
	if err != nil {
		return vfutil.Failf("harness/nats", "%v", err)
	}
	defer sub.Unsubscribe()
	nc.Flush()

	// ---- model
	isr := map[string]bool{}
	offsets := map[string]int64{}
	for _, r := range replicas {
		isr[r] = true
		offsets[r] = -1
	}
	var pend []*c04Pending
	byCorr := map[string]*c04Pending{}
	nextOffset := int64(0)
	seq := 0
	committedUpTo := int64(-1) // model HW
	var hist []string
	isrChangedWhilePending, mixedBatch, blockedByMinISR := false, false, false

	recompute := func() {
		offsets["a"] = nextOffset - 1
		if len(isr) >= c.MinISR {
			min := int64(1 << 62)
			for r := range isr {
				if offsets[r] < min {
					min = offsets[r]
				}
			}
			if min > committedUpTo {
				committedUpTo = min
			}
		} else if nextOffset-1 > committedUpTo {
			blockedByMinISR = true
		}
		for _, m := range pend {
			if m.accepted && m.policy == 2 && m.offset <= committedUpTo {
				m.wantAck = true
			}
		}
	}
	// sync waits until every ack the model expects has arrived, then a short
	// grace period, then judges everything that arrived.
	settle := func(step int) *vfutil.Failure {
		recompute()
		take := func() {
			mu.Lock()
			got := arrived
			arrived = nil
			mu.Unlock()
			for _, a := range got {
				if m := byCorr[a.CorrelationId]; m != nil {
					m.acks = append(m.acks, a)
				}
			}
		}
		missing := func() *c04Pending {
			for _, m := range pend {
				want := 0
				if (m.wantAck && !m.optional) || (!m.accepted && m.policy != 0) {
					want = 1
				}
				if len(m.acks) < want {
					return m
				}
			}
			return nil
		}
		for _, bound := range []time.Duration{2 * time.Second, 20 * time.Second} {
			deadline := time.Now().Add(bound)
			for time.Now().Before(deadline) {
				take()
				if missing() == nil {
					break
				}
				time.Sleep(200 * time.Microsecond)
			}
			if missing() == nil {
				break
			}
		}
		time.Sleep(3 * time.Millisecond)
		take()
		for _, m := range pend {
			desc := fmt.Sprintf("step %d, history %v: message %s (policy %s, published at step %d, model offset %d, accepted %v)", step, hist, m.corr, c04Policy(m.policy), m.step, m.offset, m.accepted)
			var pos, neg []*client.Ack
			for _, a := range m.acks {
				if a.AckError == client.Ack_OK {
					pos = append(pos, a)
				} else {
					neg = append(neg, a)
				}
			}
			if !m.accepted {
				if len(pos) > 0 {
					return vfutil.Failf("C04/rejected-message-acked", "%s got a positive ack at offset %d", desc, pos[0].Offset)
				}
				if m.policy != 0 && len(neg) == 0 {
					return vfutil.Failf("C04/rejected-message-not-nacked/bounded-liveness(20s)", "%s got no negative ack", desc)
				}
				for _, a := range neg {
					if a.AckError != m.reject {
						return vfutil.Failf("C04/wrong-nack", "%s nacked with %s, want %s", desc, a.AckError, m.reject)
					}
				}
				continue
			}
			if len(neg) > 0 {
				return vfutil.Failf("C04/accepted-message-nacked", "%s nacked with %s", desc, neg[0].AckError)
			}
			switch m.policy {
			case 0:
				if len(pos) > 0 {
					return vfutil.Failf("C04/none-policy-acked", "%s was acknowledged", desc)
				}
			case 1:
				if len(pos) == 0 {
					return vfutil.Failf("C04/leader-ack-missing/bounded-liveness(20s)", "%s", desc)
				}
			case 2:
				if len(pos) > 0 && !m.wantAck {
					cls := "isr-not-caught-up"
					if len(isr) < c.MinISR {
						cls = "below-min-isr"
					}
					return vfutil.Failf("C04/all-ack-before-commit/"+cls, "%s was acknowledged although ISR %v (min %d) has offsets %v", desc, keys(isr), c.MinISR, offsets)
				}
				if m.wantAck && !m.optional && len(pos) == 0 {
					return vfutil.Failf("C04/all-ack-missing/bounded-liveness(20s)", "%s is committed (ISR %v offsets %v) but was not acknowledged", desc, keys(isr), offsets)
				}
			}
			if len(pos) > 1 {
				return vfutil.Failf("C04/acked-twice", "%s received %d acks", desc, len(pos))
			}
			for _, a := range pos {
				if a.Offset != m.offset {
					return vfutil.Failf("C04/ack-offset-wrong", "%s acked with offset %d", desc, a.Offset)
				}
				if a.AckPolicy != c04Policy(m.policy) {
					return vfutil.Failf("C04/ack-policy-wrong", "%s ack carries policy %s", desc, a.AckPolicy)
				}
			}
		}
		return nil
	}

	for step, op := range c.Ops {
		rep := []string{"b", "c"}[op.Rep%2]
		if c.RF == 2 {
			rep = "b"
		}
		switch op.Op {
		case "publish":
			pols := map[int]bool{}
			for _, ms := range op.Msgs {
				seq++
				corr := fmt.Sprintf("m%d", seq)
				m := &c04Pending{corr: corr, policy: ms.Policy, step: step, offset: -1}
				val := []byte(corr + "|")
				switch ms.Size {
				case 1:
					val = append(val, make([]byte, c04MaxBytes-120)...)
				case 2:
					val = append(val, make([]byte, c04MaxBytes+50)...)
				case 3:
					// the value alone is within the limit, the published payload is not
					val = append(val, make([]byte, c04MaxBytes-20-len(val))...)
				case 4:
					val = append(val[:len(val)-1], c04Unsealable...)
				}
				m.value = string(val[:len(corr)+1])
				msg := &client.Message{Value: val, AckInbox: inbox, CorrelationId: corr, AckPolicy: c04Policy(ms.Policy)}
				var exp int64 = -1
				if c.OCC {
					switch ms.Exp {
					case 1:
						exp = nextOffset
					case 2:
						exp = nextOffset - 1
						if exp < 0 {
							exp = 5
						}
					case 3:
						exp = nextOffset + 3
					}
					msg.Offset = exp
				}
				data, err := proto.MarshalPublish(msg)
				if err != nil {
					return vfutil.Failf("harness/marshal", "%v", err)
				}
				switch {
				case c.Enc && ms.Size == 4:
					// sealing comes first in the message loop
					m.reject = client.Ack_ENCRYPTION
					o.Label("rejected:encryption-failed")
				case len(data) > c04MaxBytes:
					m.reject = client.Ack_TOO_LARGE
					o.Label("rejected:too-large")
				case c.OCC && exp != -1 && exp != nextOffset:
					m.reject = client.Ack_INCORRECT_OFFSET
					o.Label("rejected:incorrect-offset")
				default:
					m.accepted = true
					m.offset = nextOffset
					nextOffset++
					if m.policy == 1 {
						m.wantAck = true
					}
				}
				pols[ms.Policy] = true
				pend = append(pend, m)
				byCorr[corr] = m
				if err := nc.Publish(name, data); err != nil {
					return vfutil.Failf("harness/publish", "%v", err)
				}
			}
			nc.Flush()
			if len(pols) > 1 {
				mixedBatch = true
			}
			hist = append(hist, fmt.Sprintf("publish(%d)", len(op.Msgs)))
			// wait until the leader has stored everything it accepts
			deadline := time.Now().Add(20 * time.Second)
			for p.log.NewestOffset() < nextOffset-1 && time.Now().Before(deadline) {
				time.Sleep(100 * time.Microsecond)
			}
			if p.log.NewestOffset() != nextOffset-1 {
				return vfutil.Failf("C04/leader-log-length", "step %d, history %v: the leader's newest offset is %d, the model expects %d", step, hist, p.log.NewestOffset(), nextOffset-1)
			}
		case "report":
			if c.RF == 1 {
				continue
			}
			o2 := int64(-1)
			if nextOffset > 0 {
				o2 = int64(op.Frac)*nextOffset/100 - 1
			}
			if o2 < offsets[rep] {
				o2 = offsets[rep] // a follower's log only grows while it follows this leader
			}
			req, _ := proto.MarshalReplicationRequest(&proto.ReplicationRequest{ReplicaID: rep, Offset: o2, LeaderEpoch: leaderEpoch})
			if _, err := nc.Request(p.getReplicationRequestInbox(), req, 5*time.Second); err != nil {
				// a dropped request (replicator busy) is legal: the follower retries
				o.Count("report_retries", 1)
				time.Sleep(2 * time.Millisecond)
				if _, err := nc.Request(p.getReplicationRequestInbox(), req, 20*time.Second); err != nil {
					return vfutil.Failf("harness/report", "replication request by %s not answered: %v", rep, err)
				}
			}
			if isr[rep] && o2 > offsets[rep] {
				offsets[rep] = o2
			}
			hist = append(hist, fmt.Sprintf("report(%s,%d)", rep, o2))
		case "stalereport":
			// a follower that has not applied the latest leader change yet still
			// fetches with the previous leader epoch and reports the end of the log
			// it built under the previous leader: not a position in this epoch
			if c.RF == 1 || leaderEpoch < 2 {
				continue
			}
			old := leaderEpoch - 1 - uint64(op.Frac%3)
			req, _ := proto.MarshalReplicationRequest(&proto.ReplicationRequest{ReplicaID: rep, Offset: nextOffset - 1 + int64(op.Frac%2), LeaderEpoch: old})
			if err := nc.PublishRequest(p.getReplicationRequestInbox(), nats.NewInbox(), req); err != nil {
				return vfutil.Failf("harness/report", "%v", err)
			}
			nc.Flush()
			time.Sleep(3 * time.Millisecond)
			hist = append(hist, fmt.Sprintf("stalereport(%s,epoch %d)", rep, old))
			o.Label("replication-request-from-an-older-epoch")
		case "bounce":
			// the partition is paused and resumed (what auto-pause or an operator
			// does): the leader gets a new partition object built from the current
			// metadata and must derive everything (ISR, min ISR state) from it
			index++
			if _, err := s.apply(&proto.RaftLog{Op: proto.Op_PAUSE_STREAM, PauseStreamOp: &proto.PauseStreamOp{Stream: name, Partitions: []int32{0}}}, index, false); err != nil {
				return vfutil.Failf("harness/apply", "pause: %v", err)
			}
			index++
			if _, err := s.apply(&proto.RaftLog{Op: proto.Op_RESUME_STREAM, ResumeStreamOp: &proto.ResumeStreamOp{Stream: name, Partitions: []int32{0}}}, index, false); err != nil {
				return vfutil.Failf("harness/apply", "resume: %v", err)
			}
			p = s.metadata.GetPartition(name, 0)
			if p == nil || !p.IsLeader() {
				return vfutil.Failf("harness/bounce", "partition not leading after pause/resume")
			}
			if c.Enc {
				p.encryptionHandler = c04Codec{}
			}
			for r := range offsets {
				if r != "a" {
					offsets[r] = -1 // followers have to report their position to the new incarnation
				}
			}
			for _, m := range pend {
				if m.accepted && m.policy == 2 && len(m.acks) == 0 {
					m.optional = true // the commit queue does not survive: the publisher has to retry
				}
			}
			hist = append(hist, "bounce")
			o.Label("leader-partition-recreated")
		case "shrink", "expand":
			if c.RF == 1 {
				continue
			}
			index++
			anyPending := false
			for _, m := range pend {
				if m.accepted && m.policy == 2 && !m.wantAck {
					anyPending = true
				}
			}
			if op.Op == "shrink" {
				if !isr[rep] {
					continue
				}
				if _, err := s.apply(&proto.RaftLog{Op: proto.Op_SHRINK_ISR, ShrinkISROp: &proto.ShrinkISROp{Stream: name, Partition: 0, ReplicaToRemove: rep, Leader: "a", LeaderEpoch: leaderEpoch}}, index, false); err != nil {
					return vfutil.Failf("harness/apply", "%v", err)
				}
				delete(isr, rep)
			} else {
				if isr[rep] {
					continue
				}
				if _, err := s.apply(&proto.RaftLog{Op: proto.Op_EXPAND_ISR, ExpandISROp: &proto.ExpandISROp{Stream: name, Partition: 0, ReplicaToAdd: rep, Leader: "a", LeaderEpoch: leaderEpoch}}, index, false); err != nil {
					return vfutil.Failf("harness/apply", "%v", err)
				}
				isr[rep] = true
				offsets[rep] = -1 // a replica that rejoins must report its position again
			}
			if anyPending {
				isrChangedWhilePending = true
			}
			hist = append(hist, fmt.Sprintf("%s(%s)", op.Op, rep))
		}
		if f := settle(step); f != nil {
			return f
		}
	}
	// ---- quiescence: everyone in the ISR reports the end of the log
	if c.RF > 1 {
		for _, rep := range replicas[1:] {
			if !isr[rep] {
				continue
			}
			req, _ := proto.MarshalReplicationRequest(&proto.ReplicationRequest{ReplicaID: rep, Offset: nextOffset - 1, LeaderEpoch: leaderEpoch})
			for try := 0; try < 3; try++ {
				if _, err := nc.Request(p.getReplicationRequestInbox(), req, 5*time.Second); err == nil {
					break
				}
			}
			offsets[rep] = nextOffset - 1
		}
		hist = append(hist, "all-report-end")
	}
	if f := settle(len(c.Ops)); f != nil {
		return f
	}
	if len(isr) >= c.MinISR {
		deadline := time.Now().Add(20 * time.Second)
		for p.log.HighWatermark() != nextOffset-1 && time.Now().Before(deadline) {
			time.Sleep(200 * time.Microsecond)
		}
		if hw := p.log.HighWatermark(); hw != nextOffset-1 {
			return vfutil.Failf("C04/hw-behind-at-quiescence/bounded-liveness(20s)", "history %v: every in-sync replica has the whole log (newest %d) but the HW is %d", hist, nextOffset-1, hw)
		}
	} else if hw := p.log.HighWatermark(); hw > committedUpTo {
		o.Label("hw-advanced-below-min-isr") // not part of C04's statement (it is about acknowledgements); reported as a label only
	}
	// the log holds exactly the accepted messages at their acked offsets
	stored := c06ReadValues(p.log)
	for _, m := range pend {
		if m.accepted {
			if int(m.offset) >= len(stored) || len(stored[m.offset]) < len(m.value) || stored[m.offset][:len(m.value)] != m.value {
				return vfutil.Failf("C04/acked-offset-holds-other-message", "history %v: message %s should be at offset %d", hist, m.corr, m.offset)
			}
		} else {
			for off, v := range stored {
				if len(v) >= len(m.value) && v[:len(m.value)] == m.value {
					return vfutil.Failf("C04/rejected-message-stored", "history %v: rejected message %s (%s) is stored at offset %d", hist, m.corr, m.reject, off)
				}
			}
		}
	}
	if int64(len(stored)) != nextOffset {
		return vfutil.Failf("C04/leader-log-length", "history %v: log holds %d messages, model %d", hist, len(stored), nextOffset)
	}
	if isrChangedWhilePending || mixedBatch || blockedByMinISR {
		o.NonTrivial()
	}
	if isrChangedWhilePending {
		o.Label("isr-changed-while-all-pending")
	}
	if blockedByMinISR {
		o.Label("min-isr-blocked-commit")
	}
	if mixedBatch {
		o.Label("mixed-policy-burst")
	}
	o.Label(fmt.Sprintf("rf%d", c.RF))
	return nil
}

func c04Policy(p int) client.AckPolicy {
	switch p {
	case 1:
		return client.AckPolicy_LEADER
	case 2:
		return client.AckPolicy_ALL
	}
	return client.AckPolicy_NONE
}

func keys(m map[string]bool) []string {
	var out []string
	for k := range m {
		out = append(out, k)
	}
	sort.Strings(out)
	return out
}

func TestVerifC04(t *testing.T) {
	defer func() {
		if c04NS != nil {
			c04NS.Shutdown()
		}
	}()
	vfutil.Run(t, vfutil.Spec[c04Case]{ID: "C04", Gen: genC04, Run: runC04, Journal: true})
}
