//go:build verif

package server

import (
	"os"

	"github.com/liftbridge-io/liftbridge/server/logger"
)

func vfLogger() logger.Logger {
	l := logger.NewLogger(0)
	l.Silent(os.Getenv("VERIF_LOG") == "")
	return l
}

func vfConfig(dataDir, id string) *Config {
	c := NewDefaultConfig()
	c.DataDir = dataDir
	c.Clustering.ServerID = id
	c.Clustering.Namespace = "vf"
	c.LogSilent = os.Getenv("VERIF_LOG") == ""
	c.LogRecovery = true // finishedRecovery would otherwise un-silence the logger
	c.Telemetry.Enabled = false
	return c
}

// vfBare builds a Server without starting it: metadata store, FSM apply,
// partitions and consumer groups work; no NATS, Raft or gRPC.
func vfBare(dataDir, id string) *Server {
	s := New(vfConfig(dataDir, id))
	s.api = &apiServer{Server: s}
	return s
}
