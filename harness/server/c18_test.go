//go:build verif

package server

import (
	"fmt"
	"sort"
	"testing"
	"time"

	"github.com/hashicorp/raft"
	client "github.com/liftbridge-io/liftbridge-api/v2/go"
	pb "google.golang.org/protobuf/proto"

	proto "github.com/liftbridge-io/liftbridge/server/protocol"
	"github.com/liftbridge-io/liftbridge/server/vfutil"
	"pgregory.net/rapid"
)

// C18: the activity stream lists metadata changes in commit order, at least once.

type c18Op struct {
	Op string `json:"op"` // create | delete | pause | resume | readonly | join | leave | block | unblock | restart
	S  int    `json:"s,omitempty"`
	B  bool   `json:"b,omitempty"`
	M  int    `json:"m,omitempty"`
}

type c18Case struct {
	Ops []c18Op `json:"ops"`
}

func genC18(t *rapid.T) c18Case {
	var c c18Case
	n := rapid.IntRange(4, 14).Draw(t, "nops")
	blocks := 0
	for i := 0; i < rapid.IntRange(1, 3).Draw(t, "creates"); i++ {
		c.Ops = append(c.Ops, c18Op{Op: "create", S: i, M: rapid.IntRange(0, 2).Draw(t, "cm")})
	}
	if rapid.IntRange(0, 2).Draw(t, "directed") == 0 {
		// an operation, immediately followed by a publish-failure window, and a
		// restart inside the window: the dispatcher resumes from the recorded index
		// while later operations are still unpublished
		rounds := rapid.IntRange(1, 3).Draw(t, "rounds")
		for r := 0; r < rounds; r++ {
			pre := rapid.IntRange(1, 2).Draw(t, "pre")
			for j := 0; j < pre; j++ {
				c.Ops = append(c.Ops, c18Op{Op: rapid.SampledFrom([]string{"pause", "readonly", "join", "leave", "create", "delete"}).Draw(t, "pop"), S: rapid.IntRange(0, 2).Draw(t, "ps"), B: rapid.Bool().Draw(t, "pb"), M: rapid.IntRange(0, 2).Draw(t, "pm")})
			}
			c.Ops = append(c.Ops, c18Op{Op: "block"})
			if rapid.Bool().Draw(t, "during") {
				c.Ops = append(c.Ops, c18Op{Op: rapid.SampledFrom([]string{"create", "delete", "readonly", "join"}).Draw(t, "dop"), S: rapid.IntRange(0, 2).Draw(t, "ds"), B: rapid.Bool().Draw(t, "db"), M: rapid.IntRange(0, 2).Draw(t, "dm")})
			}
			c.Ops = append(c.Ops, c18Op{Op: "restart"}, c18Op{Op: "unblock"})
		}
		return c
	}
	for i := 0; i < n; i++ {
		op := c18Op{S: rapid.IntRange(0, 2).Draw(t, "s"), B: rapid.Bool().Draw(t, "b"), M: rapid.IntRange(0, 2).Draw(t, "m")}
		kinds := []string{"create", "create", "delete", "pause", "resume", "readonly", "join", "leave"}
		if blocks < 2 {
			kinds = append(kinds, "block", "restart")
		}
		op.Op = rapid.SampledFrom(kinds).Draw(t, "op")
		if op.Op == "block" {
			blocks++
			c.Ops = append(c.Ops, op)
			// while blocked: one or two operations, then unblock
			k := rapid.IntRange(0, 2).Draw(t, "during")
			for j := 0; j < k; j++ {
				c.Ops = append(c.Ops, c18Op{Op: rapid.SampledFrom([]string{"create", "delete", "pause", "readonly", "join"}).Draw(t, "dop"), S: rapid.IntRange(0, 2).Draw(t, "ds"), B: rapid.Bool().Draw(t, "db"), M: rapid.IntRange(0, 2).Draw(t, "dm")})
			}
			if rapid.IntRange(0, 1).Draw(t, "restart-while-blocked") == 0 {
				c.Ops = append(c.Ops, c18Op{Op: "restart"})
			}
			c.Ops = append(c.Ops, c18Op{Op: "unblock"})
			continue
		}
		if op.Op == "restart" {
			blocks++
		}
		c.Ops = append(c.Ops, op)
	}
	return c
}

// describe renders the fields of an event that come from the operation.
func c18DescribeEvent(e *client.ActivityStreamEvent) string {
	switch e.Op {
	case client.ActivityStreamOp_CREATE_STREAM:
		return fmt.Sprintf("create %s %v", e.CreateStreamOp.GetStream(), e.CreateStreamOp.GetPartitions())
	case client.ActivityStreamOp_DELETE_STREAM:
		return fmt.Sprintf("delete %s", e.DeleteStreamOp.GetStream())
	case client.ActivityStreamOp_PAUSE_STREAM:
		return fmt.Sprintf("pause %s %v %v", e.PauseStreamOp.GetStream(), e.PauseStreamOp.GetPartitions(), e.PauseStreamOp.GetResumeAll())
	case client.ActivityStreamOp_RESUME_STREAM:
		return fmt.Sprintf("resume %s %v", e.ResumeStreamOp.GetStream(), e.ResumeStreamOp.GetPartitions())
	case client.ActivityStreamOp_SET_STREAM_READONLY:
		return fmt.Sprintf("readonly %s %v %v", e.SetStreamReadonlyOp.GetStream(), e.SetStreamReadonlyOp.GetPartitions(), e.SetStreamReadonlyOp.GetReadonly())
	case client.ActivityStreamOp_JOIN_CONSUMER_GROUP:
		return fmt.Sprintf("join %s %s %v", e.JoinConsumerGroupOp.GetGroupId(), e.JoinConsumerGroupOp.GetConsumerId(), e.JoinConsumerGroupOp.GetStreams())
	case client.ActivityStreamOp_LEAVE_CONSUMER_GROUP:
		return fmt.Sprintf("leave %s %s %v", e.LeaveConsumerGroupOp.GetGroupId(), e.LeaveConsumerGroupOp.GetConsumerId(), e.LeaveConsumerGroupOp.GetExpired())
	}
	return "unknown"
}

// c18DescribeOp renders a committed Raft operation the same way, or "".
func c18DescribeOp(l *proto.RaftLog) string {
	switch l.Op {
	case proto.Op_CREATE_STREAM:
		var ps []int32
		for _, p := range l.CreateStreamOp.Stream.Partitions {
			ps = append(ps, p.Id)
		}
		return fmt.Sprintf("create %s %v", l.CreateStreamOp.Stream.Name, ps)
	case proto.Op_DELETE_STREAM:
		return fmt.Sprintf("delete %s", l.DeleteStreamOp.Stream)
	case proto.Op_PAUSE_STREAM:
		return fmt.Sprintf("pause %s %v %v", l.PauseStreamOp.Stream, l.PauseStreamOp.Partitions, l.PauseStreamOp.ResumeAll)
	case proto.Op_RESUME_STREAM:
		return fmt.Sprintf("resume %s %v", l.ResumeStreamOp.Stream, l.ResumeStreamOp.Partitions)
	case proto.Op_SET_STREAM_READONLY:
		return fmt.Sprintf("readonly %s %v %v", l.SetStreamReadonlyOp.Stream, l.SetStreamReadonlyOp.Partitions, l.SetStreamReadonlyOp.Readonly)
	case proto.Op_CREATE_CONSUMER_GROUP:
		ms := l.CreateConsumerGroupOp.ConsumerGroup.Members
		if len(ms) == 0 {
			return ""
		}
		return fmt.Sprintf("join %s %s %v", l.CreateConsumerGroupOp.ConsumerGroup.Id, ms[0].Id, ms[0].Streams)
	case proto.Op_JOIN_CONSUMER_GROUP:
		return fmt.Sprintf("join %s %s %v", l.JoinConsumerGroupOp.GroupId, l.JoinConsumerGroupOp.ConsumerId, l.JoinConsumerGroupOp.Streams)
	case proto.Op_LEAVE_CONSUMER_GROUP:
		return fmt.Sprintf("leave %s %s %v", l.LeaveConsumerGroupOp.GroupId, l.LeaveConsumerGroupOp.ConsumerId, l.LeaveConsumerGroupOp.Expired)
	}
	return ""
}

func runC18(c c18Case, o *vfutil.Obs) *vfutil.Failure {
	l, err := newVFL3("c18", func(cfg *Config) {
		cfg.ActivityStream.Enabled = true
		cfg.ActivityStream.PublishTimeout = 2 * time.Second
		cfg.ActivityStream.PublishAckPolicy = client.AckPolicy_ALL
	})
	if err != nil {
		return vfutil.Failf("harness/start", "%v", err)
	}
	defer l.close()
	waitActivity := func() error {
		deadline := time.Now().Add(20 * time.Second)
		for time.Now().Before(deadline) {
			if p := l.s.metadata.GetPartition(activityStream, 0); p != nil && p.IsLeader() {
				return nil
			}
			time.Sleep(2 * time.Millisecond)
		}
		return fmt.Errorf("activity stream partition not leading")
	}
	if err := waitActivity(); err != nil {
		return vfutil.Failf("harness/activity", "%v", err)
	}
	streams := map[string]bool{}
	members := map[string]bool{}
	var hist []string
	blocked, retried := false, false
	for _, op := range c.Ops {
		name := fmt.Sprintf("as%d", op.S)
		a := l.s.api
		ctx, cancel := ctxFor("", 20*time.Second)
		var err error
		switch op.Op {
		case "create":
			if streams[name] {
				cancel()
				continue
			}
			_, err = a.CreateStream(ctx, &client.CreateStreamRequest{Name: name, Subject: name, Partitions: int32(1 + op.M)})
			streams[name] = err == nil
		case "delete":
			if !streams[name] {
				cancel()
				continue
			}
			_, err = a.DeleteStream(ctx, &client.DeleteStreamRequest{Name: name})
			if err == nil {
				delete(streams, name)
			}
		case "pause":
			if !streams[name] {
				cancel()
				continue
			}
			_, err = a.PauseStream(ctx, &client.PauseStreamRequest{Name: name, ResumeAll: op.B})
		case "resume":
			if !streams[name] {
				cancel()
				continue
			}
			if st := l.s.metadata.ResumeStream(ctx, &proto.ResumeStreamOp{Stream: name, Partitions: []int32{0}}); st != nil {
				err = st.Err()
			}
		case "readonly":
			if !streams[name] {
				cancel()
				continue
			}
			if p := l.s.metadata.GetPartition(name, 0); p == nil || p.IsPaused() {
				cancel()
				continue
			}
			_, err = a.SetStreamReadonly(ctx, &client.SetStreamReadonlyRequest{Name: name, Readonly: op.B})
		case "join":
			if !streams[name] || members[fmt.Sprintf("m%d", op.M)] {
				cancel()
				continue
			}
			_, err = a.JoinConsumerGroup(ctx, &client.JoinConsumerGroupRequest{GroupId: "cg", ConsumerId: fmt.Sprintf("m%d", op.M), Streams: []string{name}})
			members[fmt.Sprintf("m%d", op.M)] = err == nil
		case "leave":
			if !members[fmt.Sprintf("m%d", op.M)] {
				cancel()
				continue
			}
			_, err = a.LeaveConsumerGroup(ctx, &client.LeaveConsumerGroupRequest{GroupId: "cg", ConsumerId: fmt.Sprintf("m%d", op.M)})
			if err == nil {
				delete(members, fmt.Sprintf("m%d", op.M))
			}
		case "block":
			// publishes to the activity stream fail while it is read-only: the
			// dispatcher backs off and retries
			_, err = a.SetStreamReadonly(ctx, &client.SetStreamReadonlyRequest{Name: activityStream, Readonly: true})
			blocked = true // also after an error: the operation may have been committed all the same
		case "unblock":
			if blocked {
				time.Sleep(1200 * time.Millisecond) // at least one failed attempt happened
				_, err = a.SetStreamReadonly(ctx, &client.SetStreamReadonlyRequest{Name: activityStream, Readonly: false})
				if err != nil {
					cancel()
					return vfutil.Failf("harness/unblock", "%v", err)
				}
				blocked = false
				retried = true
				o.Label("publish-failure-window")
			}
		case "restart":
			cancel()
			if err := l.restart(); err != nil {
				return vfutil.Failf("harness/restart", "%v", err)
			}
			if err := waitActivity(); err != nil {
				return vfutil.Failf("harness/activity", "%v", err)
			}
			retried = true
			hist = append(hist, "restart")
			if blocked {
				o.Label("restart-inside-failure-window")
			} else {
				o.Label("restart")
			}
			continue
		}
		cancel()
		hist = append(hist, fmt.Sprintf("%s(%s)%s", op.Op, name, errMark(err)))
	}
	if blocked {
		ctx, cancel := ctxFor("", 20*time.Second)
		_, err := l.s.api.SetStreamReadonly(ctx, &client.SetStreamReadonlyRequest{Name: activityStream, Readonly: false})
		cancel()
		if err != nil {
			return vfutil.Failf("harness/unblock", "%v", err)
		}
	}
	if f := c18Judge(hist, func() *Server { return l.s }, func() *Server { return l.s }, 45*time.Second, o); f != nil {
		return f
	}
	if retried {
		o.NonTrivial()
		o.Label("retry-or-resume")
	}
	return nil
}

// c18ReadTruth lists the event-producing operations in a server's Raft log.
func c18ReadTruth(s *Server) (map[uint64]string, []uint64) {
	rn := s.getRaft()
	first, _ := rn.store.FirstIndex()
	last, _ := rn.store.LastIndex()
	truth := map[uint64]string{}
	var idx []uint64
	for i := first; i <= last && i > 0; i++ {
		lg := new(raft.Log)
		if err := rn.store.GetLog(i, lg); err != nil || lg.Type != raft.LogCommand {
			continue
		}
		rl := new(proto.RaftLog)
		if rl.Unmarshal(lg.Data) != nil {
			continue
		}
		if d := c18DescribeOp(rl); d != "" {
			truth[i] = d
			idx = append(idx, i)
		}
	}
	return truth, idx
}

// c18Judge compares the activity stream with the committed Raft log.
// controller() returns the current metadata leader, activityLeader() the
// server leading the activity partition. The server commits operations of its
// own (expired group members), so the log is read twice: every operation in the
// first reading must have an event once the dispatcher has passed it, and every
// event must have an operation in a reading taken after the events.
func c18Judge(hist []string, controller, activityLeader func() *Server, wait time.Duration, o *vfutil.Obs) *vfutil.Failure {
	ctl := controller()
	if ctl == nil {
		return vfutil.Failf("harness/leader", "no metadata leader; history %v", hist)
	}
	truth, truthIdx := c18ReadTruth(ctl)
	if len(truthIdx) == 0 {
		return nil
	}
	lastTruth := truthIdx[len(truthIdx)-1]
	// ---- bounded liveness: the dispatcher catches up (back-off is at most 10 s)
	deadline := time.Now().Add(wait)
	published := func() uint64 {
		if c := controller(); c != nil {
			ctl = c
		}
		return ctl.activity.LastPublishedRaftIndex()
	}
	for published() < lastTruth && time.Now().Before(deadline) {
		time.Sleep(5 * time.Millisecond)
	}
	if got := published(); got < lastTruth {
		return vfutil.Failf(fmt.Sprintf("C18/event-never-published/bounded-liveness(%v)", wait), "history %v: operation %d (%s) was committed but the activity dispatcher only reached index %d", hist, lastTruth, truth[lastTruth], got)
	}
	// ---- read the activity stream
	al := activityLeader()
	if al == nil {
		return vfutil.Failf("harness/activity", "no activity partition leader; history %v", hist)
	}
	p := al.metadata.GetPartition(activityStream, 0)
	if p == nil {
		return vfutil.Failf("harness/activity", "no activity partition")
	}
	var events []*client.ActivityStreamEvent
	for _, v := range c06ReadValues(p.log) {
		e := new(client.ActivityStreamEvent)
		if err := pb.Unmarshal([]byte(v), e); err != nil {
			return vfutil.Failf("C18/undecodable-event", "%v", err)
		}
		events = append(events, e)
	}
	truth1 := truth
	truth, _ = c18ReadTruth(ctl)
	seen := map[uint64]string{}
	var maxID uint64
	var ids []uint64
	for _, e := range events {
		ids = append(ids, e.Id)
		d := c18DescribeEvent(e)
		want, ok := truth[e.Id]
		if !ok {
			return vfutil.Failf("C18/event-without-operation", "history %v: the activity stream holds event id %d (%s) but no such operation was committed at that index; event ids %v", hist, e.Id, d, ids)
		}
		if d != want {
			return vfutil.Failf("C18/event-content-wrong", "history %v: event id %d says %q, the committed operation is %q", hist, e.Id, d, want)
		}
		if prev, dup := seen[e.Id]; dup {
			o.Label("redelivery")
			if prev != d {
				return vfutil.Failf("C18/redelivery-differs", "history %v: event id %d redelivered with other content", hist, e.Id)
			}
			continue
		}
		if e.Id <= maxID {
			return vfutil.Failf("C18/events-out-of-commit-order", "history %v: first occurrence of event %d after event %d; event ids %v", hist, e.Id, maxID, ids)
		}
		maxID = e.Id
		seen[e.Id] = d
	}
	sort.Slice(truthIdx, func(i, j int) bool { return truthIdx[i] < truthIdx[j] })
	for _, i := range truthIdx {
		if _, ok := seen[i]; !ok {
			return vfutil.Failf("C18/operation-missing-from-activity-stream", "history %v: operation %d (%s) was committed but has no event; event ids %v", hist, i, truth1[i], ids)
		}
	}
	o.Count("operations", len(truthIdx))
	o.Count("events", len(events))
	return nil
}

func TestVerifC18(t *testing.T) {
	vfutil.Run(t, vfutil.Spec[c18Case]{ID: "C18", Gen: genC18, Run: runC18, Journal: true})
}
