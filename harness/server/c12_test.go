//go:build verif

package server

import (
	"strings"
	"fmt"
	"os"
	"reflect"
	"sort"
	"testing"
	"time"

	proto "github.com/liftbridge-io/liftbridge/server/protocol"
	"github.com/liftbridge-io/liftbridge/server/vfutil"
	"pgregory.net/rapid"
)

// C12: histories over one consumer group object.

type c12Op struct {
	Op      string `json:"op"` // join | leave | expire | delstream | newstream | rebuild
	M       int    `json:"m,omitempty"`
	Streams []int  `json:"streams,omitempty"`
	S       int    `json:"s,omitempty"`
	Parts   int    `json:"parts,omitempty"`
	Order   int    `json:"order,omitempty"` // rebuild: which member order the snapshot lists (map order is arbitrary)
}

type c12Case struct {
	Parts []int   `json:"parts"` // partitions per stream s0..s2 (0 = stream does not exist yet)
	Ops   []c12Op `json:"ops"`
	// Replay: the second object plays a server that applies the same operations
	// while it replays its Raft log after a start: a deleted stream is only
	// tombstoned there until the replay is over, so it still exists - with its
	// partitions - as far as the partition count the group asks for is concerned
	Replay bool `json:"replay,omitempty"`
}

func c12Stream(i int) string { return fmt.Sprintf("s%d", i) }
func c12Member(i int) string { return fmt.Sprintf("m%d", i) }

func genC12(t *rapid.T) c12Case {
	ns := rapid.IntRange(1, 3).Draw(t, "nstreams")
	c := c12Case{Replay: rapid.Bool().Draw(t, "replay")}
	for i := 0; i < ns; i++ {
		c.Parts = append(c.Parts, rapid.IntRange(1, 5).Draw(t, "parts"))
	}
	n := rapid.IntRange(1, 25).Draw(t, "nops")
	for i := 0; i < n; i++ {
		switch rapid.SampledFrom([]string{"join", "join", "join", "join", "leave", "leave", "expire", "delstream", "newstream", "rebuild"}).Draw(t, "op") {
		case "join":
			var ss []int
			for s := 0; s < ns; s++ {
				if rapid.Bool().Draw(t, "sub") {
					ss = append(ss, s)
				}
			}
			if len(ss) == 0 {
				ss = []int{rapid.IntRange(0, ns-1).Draw(t, "one")}
			}
			c.Ops = append(c.Ops, c12Op{Op: "join", M: rapid.IntRange(0, 4).Draw(t, "m"), Streams: ss})
		case "leave":
			c.Ops = append(c.Ops, c12Op{Op: "leave", M: rapid.IntRange(0, 4).Draw(t, "m")})
		case "expire":
			c.Ops = append(c.Ops, c12Op{Op: "expire", M: rapid.IntRange(0, 4).Draw(t, "m")})
		case "delstream":
			c.Ops = append(c.Ops, c12Op{Op: "delstream", S: rapid.IntRange(0, ns-1).Draw(t, "s")})
		case "newstream":
			c.Ops = append(c.Ops, c12Op{Op: "newstream", S: rapid.IntRange(0, ns-1).Draw(t, "s"), Parts: rapid.IntRange(1, 5).Draw(t, "parts")})
		case "rebuild":
			c.Ops = append(c.Ops, c12Op{Op: "rebuild", Order: rapid.IntRange(0, 5).Draw(t, "order")})
		}
	}
	return c
}

type c12World struct {
	parts   map[string]int32
	group   *consumerGroup
	shadow  *consumerGroup // second object fed the same history (determinism); rebuilt from a snapshot on "rebuild"
	members map[string]map[string]bool
	tomb    map[string]int32 // partitions of deleted streams as the replaying server still sees them
	epoch   uint64 // Raft index of the current operation
	gEpoch  uint64 // group epoch: index of the last operation that changed the group
}

func (w *c12World) countParts(s string) int32 { return w.parts[s] }

func (w *c12World) countPartsReplaying(s string) int32 {
	if n := w.tomb[s]; n > 0 {
		return n
	}
	return w.parts[s]
}

func (w *c12World) newShadow(first *proto.Consumer) *consumerGroup {
	pg := &proto.ConsumerGroup{Id: "g", Coordinator: "me", Epoch: 0}
	if first != nil {
		pg.Members = []*proto.Consumer{first}
	}
	return newConsumerGroup("me", time.Hour, pg, false, vfLogger(), func(string, string) error { return nil }, w.countPartsReplaying)
}

func (w *c12World) newGroup(first *proto.Consumer) *consumerGroup {
	pg := &proto.ConsumerGroup{Id: "g", Coordinator: "me", Epoch: 0}
	if first != nil {
		pg.Members = []*proto.Consumer{first}
	}
	return newConsumerGroup("me", time.Hour, pg, false, vfLogger(), func(string, string) error { return nil }, w.countParts)
}

func c12Assignments(g *consumerGroup, members map[string]map[string]bool, epoch uint64) (map[string]partitionAssignments, *vfutil.Failure) {
	out := map[string]partitionAssignments{}
	for m := range members {
		a, e, err := g.GetAssignments(m, epoch)
		if err != nil {
			return nil, vfutil.Failf("C12/get-assignments-error", "GetAssignments(%s, epoch %d): %v", m, epoch, err)
		}
		if e != epoch {
			return nil, vfutil.Failf("C12/epoch", "GetAssignments returned epoch %d, want %d", e, epoch)
		}
		out[m] = a
	}
	return out, nil
}

func runC12(c c12Case, o *vfutil.Obs) *vfutil.Failure {
	w := &c12World{parts: map[string]int32{}, members: map[string]map[string]bool{}, tomb: map[string]int32{}}
	for i, p := range c.Parts {
		w.parts[c12Stream(i)] = int32(p)
	}
	defer func() {
		if w.group != nil {
			w.group.Close()
		}
		if w.shadow != nil {
			w.shadow.Close()
		}
	}()
	balancedOnce, disturbed, rebuilt := false, false, false
	compareShadow := true
	for step, op := range c.Ops {
		w.epoch++ // the Raft index of the operation
		m := c12Member(op.M)
		switch op.Op {
		case "join":
			if w.members[m] != nil {
				continue // precondition: not already a member
			}
			var ss []string
			for _, s := range op.Streams {
				if s < len(c.Parts) && w.parts[c12Stream(s)] > 0 { // precondition: stream exists
					ss = append(ss, c12Stream(s))
				}
			}
			if len(ss) == 0 {
				continue
			}
			if w.group == nil {
				// the first member creates the group (CreateConsumerGroupOp); its epoch is 0
				w.group = w.newGroup(&proto.Consumer{Id: m, Streams: ss})
				w.shadow = w.newShadow(&proto.Consumer{Id: m, Streams: ss})
				w.gEpoch = 0
			} else {
				w.gEpoch = w.epoch
				for _, g := range []*consumerGroup{w.group, w.shadow} {
					if err := g.AddMember(m, ss, w.epoch); err != nil {
						return vfutil.Failf("C12/join-error", "step %d: AddMember(%s): %v", step, m, err)
					}
				}
			}
			w.members[m] = map[string]bool{}
			for _, s := range ss {
				w.members[m][s] = true
			}
		case "leave", "expire":
			if w.members[m] == nil {
				continue
			}
			var last bool
			for _, g := range []*consumerGroup{w.group, w.shadow} {
				l, err := g.RemoveMember(m, w.epoch)
				if err != nil {
					return vfutil.Failf("C12/leave-error", "step %d: RemoveMember(%s): %v", step, m, err)
				}
				last = l
			}
			delete(w.members, m)
			w.gEpoch = w.epoch
			if balancedOnce {
				disturbed = true
			}
			if last != (len(w.members) == 0) {
				return vfutil.Failf("C12/last-member", "step %d: RemoveMember reported last=%v with %d members left", step, last, len(w.members))
			}
			if last { // the metadata layer deletes an empty group
				w.group.Close()
				w.shadow.Close()
				w.group, w.shadow = nil, nil
			}
		case "delstream":
			s := c12Stream(op.S)
			if w.parts[s] == 0 {
				continue
			}
			if c.Replay {
				w.tomb[s] = w.parts[s]
				o.Label("stream-deleted-while-replaying(tombstoned)")
			}
			w.parts[s] = 0
			hadSubscribers := false
			for _, subs := range w.members {
				if subs[s] {
					hadSubscribers = true
				}
				delete(subs, s)
			}
			// a group without subscribers of the stream is not affected (and
			// keeps its epoch)
			if w.group != nil && hadSubscribers {
				for _, g := range []*consumerGroup{w.group, w.shadow} {
					if err := g.StreamDeleted(s, w.epoch); err != nil {
						return vfutil.Failf("C12/stream-deleted-error", "step %d: %v", step, err)
					}
				}
				w.gEpoch = w.epoch
				if balancedOnce {
					disturbed = true
				}
			}
		case "newstream":
			s := c12Stream(op.S)
			if op.S >= len(c.Parts) || w.parts[s] > 0 {
				continue
			}
			w.parts[s] = int32(op.Parts)
			delete(w.tomb, s) // re-creating a stream removes the tombstone
		case "rebuild":
			// the shadow is replaced by a group restored from a snapshot of
			// itself, as Server.Snapshot/Restore do; the snapshot lists the
			// members in map order, so any order is a legal schedule
			if w.shadow == nil {
				continue
			}
			if vfutil.IsExcluded("c12-snapshot-member-order") {
				// open finding: assignments depend on the join history, which a
				// snapshot does not carry. The restored group is still built and
				// must satisfy every invariant on its own; only the comparison of
				// its assignments with the live group's is constructed away.
				o.Excluded("c12-snapshot-member-order")
				compareShadow = false
			}
			coord, ep := w.shadow.GetCoordinator()
			mem := w.shadow.GetMembers()
			ids := make([]string, 0, len(mem))
			for id := range mem {
				ids = append(ids, id)
			}
			sort.Strings(ids)
			// pick one of the permutations deterministically
			for k := 0; k < op.Order && len(ids) > 1; k++ {
				i := k % len(ids)
				j := (k*7 + 1) % len(ids)
				ids[i], ids[j] = ids[j], ids[i]
			}
			pg := &proto.ConsumerGroup{Id: "g", Coordinator: coord, Epoch: ep}
			for _, id := range ids {
				ss := mem[id]
				sort.Strings(ss)
				pg.Members = append(pg.Members, &proto.Consumer{Id: id, Streams: ss})
			}
			w.shadow.Close()
			w.shadow = newConsumerGroup("me", time.Hour, pg, false, vfLogger(), func(string, string) error { return nil }, w.countPartsReplaying)
			rebuilt = true
			o.Label("snapshot-rebuild")
		}
		if w.group == nil {
			continue
		}
		as, f := c12Assignments(w.group, w.members, w.gEpoch)
		if f != nil {
			return f
		}
		if f := c12CheckAssignments(step, w, as); f != nil {
			return f
		}
		// determinism: the second object (possibly restored from a snapshot) agrees
		as2, f := c12Assignments(w.shadow, w.members, w.gEpoch)
		if f != nil {
			return f
		}
		if !compareShadow {
			if f := c12CheckAssignments(step, w, as2); f != nil {
				f.Signature = strings.Replace(f.Signature, "C12/", "C12/restored-group/", 1)
				return f
			}
		} else if !c12SameAssignments(as, as2) {
			cls := "same-history"
			if rebuilt {
				cls = "after-snapshot-restore"
			}
			return vfutil.Failf("C12/nondeterministic/"+cls, "step %d (epoch %d): two servers that applied the same group operations hand out different assignments: %v vs %v", step, w.gEpoch, as, as2)
		}
		// stale epoch is refused
		if w.gEpoch > 0 {
			for m := range w.members {
				if _, _, err := w.group.GetAssignments(m, w.gEpoch-1); err != ErrGroupEpoch {
					return vfutil.Failf("C12/stale-epoch-accepted", "step %d: GetAssignments with epoch %d (current %d) returned %v", step, w.gEpoch-1, w.gEpoch, err)
				}
				break
			}
		}
		if len(w.members) >= 3 {
			overlap := false
			for a, sa := range w.members {
				for b, sb := range w.members {
					if a < b {
						for s := range sa {
							if sb[s] {
								overlap = true
							}
						}
					}
				}
			}
			if overlap {
				balancedOnce = true
				o.Label("3-members-overlapping")
			}
		}
	}
	if balancedOnce && disturbed {
		o.NonTrivial()
	}
	return nil
}

func c12SameAssignments(a, b map[string]partitionAssignments) bool {
	norm := func(x map[string]partitionAssignments) map[string]map[string][]int32 {
		out := map[string]map[string][]int32{}
		for m, pa := range x {
			out[m] = map[string][]int32{}
			for s, ps := range pa {
				if len(ps) == 0 {
					continue
				}
				q := append([]int32{}, ps...)
				sort.Slice(q, func(i, j int) bool { return q[i] < q[j] })
				out[m][s] = q
			}
		}
		return out
	}
	return reflect.DeepEqual(norm(a), norm(b))
}

func c12CheckAssignments(step int, w *c12World, as map[string]partitionAssignments) *vfutil.Failure {
	owner := map[string]map[int32]string{}
	for m, pa := range as {
		for s, ps := range pa {
			for _, p := range ps {
				if !w.members[m][s] {
					return vfutil.Failf("C12/assigned-unsubscribed-stream", "step %d: %s holds %s/%d but did not subscribe to %s (assignments %v)", step, m, s, p, s, as)
				}
				if p < 0 || p >= w.parts[s] {
					return vfutil.Failf("C12/assigned-nonexistent-partition", "step %d: %s holds %s/%d but the stream has %d partitions", step, m, s, p, w.parts[s])
				}
				if owner[s] == nil {
					owner[s] = map[int32]string{}
				}
				if prev, ok := owner[s][p]; ok {
					return vfutil.Failf("C12/assigned-twice", "step %d: %s/%d is assigned to both %s and %s (assignments %v)", step, s, p, prev, m, as)
				}
				owner[s][p] = m
			}
		}
	}
	subscribed := map[string]int{}
	for _, subs := range w.members {
		for s := range subs {
			subscribed[s]++
		}
	}
	for s, n := range subscribed {
		if n == 0 {
			continue
		}
		for p := int32(0); p < w.parts[s]; p++ {
			if _, ok := owner[s][p]; !ok {
				return vfutil.Failf("C12/unassigned-partition", "step %d: %s/%d has %d subscribed member(s) but no owner (assignments %v, subscriptions %v)", step, s, p, n, as, w.members)
			}
		}
	}
	// single-stream group: counts differ by at most one
	if len(subscribed) == 1 {
		single := true
		for _, subs := range w.members {
			if len(subs) != 1 {
				single = false
			}
		}
		if single && len(w.members) > 0 {
			min, max := 1<<30, -1
			for m := range w.members {
				n := 0
				for _, ps := range as[m] {
					n += len(ps)
				}
				if n < min {
					min = n
				}
				if n > max {
					max = n
				}
			}
			if max-min > 1 {
				return vfutil.Failf("C12/unbalanced-single-stream", "step %d: single-stream group with partition counts differing by %d (assignments %v)", step, max-min, as)
			}
		}
	}
	return nil
}

func TestVerifC12(t *testing.T) {
	vfutil.Run(t, vfutil.Spec[c12Case]{ID: "C12", Gen: genC12, Run: runC12})
}

// c12Alphabet is the finite operation alphabet of the bounded-exhaustive pass:
// two streams (2 and 3 partitions), three members.
func c12Alphabet() []c12Op {
	var a []c12Op
	for m := 0; m < 3; m++ {
		for _, ss := range [][]int{{0}, {1}, {0, 1}} {
			a = append(a, c12Op{Op: "join", M: m, Streams: ss})
		}
	}
	for m := 0; m < 3; m++ {
		a = append(a, c12Op{Op: "leave", M: m})
	}
	a = append(a, c12Op{Op: "delstream", S: 0}, c12Op{Op: "newstream", S: 0, Parts: 3})
	return a
}

// TestVerifC12Exh runs every operation sequence up to length LEN over the
// alphabet above through the same executor and oracle as the random search.
func TestVerifC12Exh(t *testing.T) {
	maxLen := vfutil.Param("LEN", 4)
	shard, shards := vfutil.Param("SHARD", 0), vfutil.Param("SHARDS", 1)
	if v := os.Getenv("VERIF_SHARD"); v != "" {
		fmt.Sscan(v, &shard)
	}
	if v := os.Getenv("VERIF_SHARDS"); v != "" {
		fmt.Sscan(v, &shards)
	}
	alpha := c12Alphabet()
	vfutil.Exhaustive(t, vfutil.Spec[c12Case]{ID: "C12", Gen: genC12, Run: runC12}, func(yield func(c12Case) bool) {
		n := 0
		idx := make([]int, 0, maxLen)
		var rec func() bool
		rec = func() bool {
			if len(idx) > 0 {
				if n%shards == shard {
					c := c12Case{Parts: []int{2, 3}, Replay: true}
					for _, i := range idx {
						c.Ops = append(c.Ops, alpha[i])
					}
					if !yield(c) {
						return false
					}
				}
				n++
			}
			if len(idx) == maxLen {
				return true
			}
			for i := range alpha {
				idx = append(idx, i)
				if !rec() {
					return false
				}
				idx = idx[:len(idx)-1]
			}
			return true
		}
		rec()
	})
}
