//go:build verif

package server

import (
	"bytes"
	"context"
	"fmt"
	"os"
	"path/filepath"
	"sort"
	"strings"
	"testing"
	"time"

	"github.com/liftbridge-io/liftbridge/server/commitlog"
	proto "github.com/liftbridge-io/liftbridge/server/protocol"
	"github.com/liftbridge-io/liftbridge/server/vfutil"
	"pgregory.net/rapid"
)

// C06 (L0): histories of valid metadata operations applied through the real
// Server.apply on bare servers; snapshot/restore/replay split.

type c06Op struct {
	Op      string `json:"op"`
	S       int    `json:"s,omitempty"`       // stream selector
	Parts   int    `json:"parts,omitempty"`   // create: number of partitions
	P       []int  `json:"p,omitempty"`       // partition selectors
	B       bool   `json:"b,omitempty"`       // resumeAll / readonly value
	Rep     int    `json:"rep,omitempty"`     // replica selector
	G       int    `json:"g,omitempty"`       // group
	M       int    `json:"m,omitempty"`       // member
	Streams []int  `json:"streams,omitempty"` // join: subscribed streams
	Cfg     int    `json:"cfg,omitempty"`     // create: stream config variant
}

type c06Case struct {
	Ops     []c06Op `json:"ops"`
	Snap    int     `json:"snap"`    // snapshot position selector
	Restart int     `json:"restart"` // restart position selector (>= snapshot)
	Persist int     `json:"persist"` // how many further ops are applied before the snapshot is persisted (hashicorp/raft persists concurrently)
	// Snap2 > 0: the restarted server takes another snapshot while it is still
	// replaying the log (after replayed operation snap + Snap2 % (restart-snap)),
	// and a third incarnation starts from that snapshot at the end
	Snap2 int `json:"snap2,omitempty"`
}

var c06Replicas = []string{"x", "y", "z"}

func genC06(t *rapid.T) c06Case {
	c := c06Case{Snap: rapid.IntRange(0, 1000).Draw(t, "snap"), Restart: rapid.IntRange(0, 1000).Draw(t, "restart")}
	if rapid.IntRange(0, 2).Draw(t, "snap-during-replay") == 0 {
		c.Snap2 = rapid.IntRange(1, 1000).Draw(t, "snap2")
	}
	if rapid.IntRange(0, 2).Draw(t, "late-persist") == 0 {
		c.Persist = rapid.IntRange(1, 4).Draw(t, "persist")
	}
	if rapid.IntRange(0, 11).Draw(t, "directed") == 0 {
		// a snapshot that is persisted only after several further operations on
		// one partition (leader changes, ISR changes) have been applied, then a
		// restart that restores it and replays those operations: the random
		// alphabet rarely puts two changes of one partition into that window
		c.Ops = []c06Op{{Op: "create", Parts: rapid.IntRange(1, 2).Draw(t, "dparts")}}
		pre := rapid.IntRange(0, 2).Draw(t, "dpre")
		kinds := []string{"leader", "leader", "shrink", "expand"}
		rep := 0
		for i := 0; i < pre; i++ {
			rep++
			c.Ops = append(c.Ops, c06Op{Op: rapid.SampledFrom(kinds).Draw(t, "dk0"), P: []int{0}, Rep: rep % 3})
		}
		c.Snap = len(c.Ops)
		k := rapid.IntRange(2, 4).Draw(t, "dk")
		for i := 0; i < k; i++ {
			rep++
			c.Ops = append(c.Ops, c06Op{Op: rapid.SampledFrom(kinds).Draw(t, "dk1"), P: []int{0}, Rep: rep % 3})
		}
		c.Ops = append(c.Ops, c06Op{Op: "create", S: 1, Parts: 1})
		c.Persist = rapid.IntRange(2, 4).Draw(t, "dpersist")
		c.Restart = len(c.Ops) - c.Snap // the end of the history if every operation resolves; inside the window otherwise
		return c
	}
	n := rapid.IntRange(3, 40).Draw(t, "nops")
	for i := 0; i < n; i++ {
		op := c06Op{S: rapid.IntRange(0, 2).Draw(t, "s")}
		op.Op = rapid.SampledFrom([]string{"create", "create", "create", "delete", "pause", "pause", "resume", "resume", "readonly", "readonly",
			"shrink", "expand", "leader", "join", "join", "leave", "coordinator", "activity"}).Draw(t, "op")
		switch op.Op {
		case "create":
			op.Parts = rapid.IntRange(1, 3).Draw(t, "parts")
			op.Cfg = rapid.IntRange(0, 2).Draw(t, "cfg")
		case "pause", "resume", "readonly":
			np := rapid.IntRange(0, 3).Draw(t, "np")
			for j := 0; j < np; j++ {
				op.P = append(op.P, rapid.IntRange(0, 2).Draw(t, "p"))
			}
			op.B = rapid.Bool().Draw(t, "b")
		case "shrink", "expand", "leader":
			op.P = []int{rapid.IntRange(0, 2).Draw(t, "p")}
			op.Rep = rapid.IntRange(0, 2).Draw(t, "rep")
		case "join":
			op.G = rapid.IntRange(0, 1).Draw(t, "g")
			op.M = rapid.IntRange(0, 3).Draw(t, "m")
			for s := 0; s < 3; s++ {
				if rapid.Bool().Draw(t, "sub") {
					op.Streams = append(op.Streams, s)
				}
			}
		case "leave":
			op.G = rapid.IntRange(0, 1).Draw(t, "g")
			op.M = rapid.IntRange(0, 3).Draw(t, "m")
		case "coordinator":
			op.G = rapid.IntRange(0, 1).Draw(t, "g")
			op.Rep = rapid.IntRange(0, 2).Draw(t, "rep")
		}
		c.Ops = append(c.Ops, op)
	}
	return c
}

// ---- the harness-side model used only to resolve selectors into valid ops

type c06MPart struct {
	isr    map[string]bool
	leader string
	paused bool
	// leader epoch: the index of the operation that made the leader the leader
	// (ISR changes name it; the FSM drops a change that names another pair)
	leaderEpoch uint64
}

type c06MStream struct {
	parts []*c06MPart
}

type c06Model struct {
	streams map[string]*c06MStream
	groups  map[string]map[string]bool
	created int
}

func c06StreamName(i int) string { return fmt.Sprintf("st%d", i) }

// resolve turns a generated op into a RaftLog that the controller could have
// committed in the current state (mirrors the check*Preconditions and the
// request validation of the metadata API), or nil if it is not enabled.
func (m *c06Model) resolve(op c06Op, index uint64) (*proto.RaftLog, string) {
	name := c06StreamName(op.S)
	st := m.streams[name]
	parts := func() []int32 {
		seen := map[int32]bool{}
		var out []int32
		for _, p := range op.P {
			id := int32(p % len(st.parts))
			if !seen[id] {
				seen[id] = true
				out = append(out, id)
			}
		}
		if len(out) == 0 { // the API layer expands "no partitions" to all of them
			for i := range st.parts {
				out = append(out, int32(i))
			}
		}
		return out
	}
	switch op.Op {
	case "create":
		if st != nil {
			return nil, ""
		}
		m.created++
		ps := &proto.Stream{Name: name, Subject: "subj." + name, CreationTimestamp: int64(1000000 + m.created)}
		switch op.Cfg {
		case 1:
			ps.Config = &proto.StreamConfig{RetentionMaxMessages: &proto.NullableInt64{Value: 1000}}
		case 2:
			ps.Config = &proto.StreamConfig{CompactEnabled: &proto.NullableBool{Value: true}, SegmentMaxBytes: &proto.NullableInt64{Value: 4096}}
		}
		ms := &c06MStream{}
		for i := 0; i < op.Parts; i++ {
			ps.Partitions = append(ps.Partitions, &proto.Partition{Subject: ps.Subject, Stream: name, Id: int32(i), ReplicationFactor: 3,
				Replicas: append([]string{}, c06Replicas...), Isr: append([]string{}, c06Replicas...), Leader: "x"})
			ms.parts = append(ms.parts, &c06MPart{isr: map[string]bool{"x": true, "y": true, "z": true}, leader: "x", leaderEpoch: index})
		}
		m.streams[name] = ms
		return &proto.RaftLog{Op: proto.Op_CREATE_STREAM, CreateStreamOp: &proto.CreateStreamOp{Stream: ps}}, "create"
	case "delete":
		if st == nil {
			return nil, ""
		}
		delete(m.streams, name)
		return &proto.RaftLog{Op: proto.Op_DELETE_STREAM, DeleteStreamOp: &proto.DeleteStreamOp{Stream: name}}, "delete"
	case "pause":
		if st == nil {
			return nil, ""
		}
		ids := parts()
		for _, id := range ids {
			st.parts[id].paused = true
		}
		return &proto.RaftLog{Op: proto.Op_PAUSE_STREAM, PauseStreamOp: &proto.PauseStreamOp{Stream: name, Partitions: ids, ResumeAll: op.B}}, "pause"
	case "resume":
		if st == nil {
			return nil, ""
		}
		ids := parts()
		any := false
		for _, id := range ids {
			if st.parts[id].paused {
				any = true
			}
			st.parts[id].paused = false
		}
		lab := "resume-noop"
		if any {
			lab = "resume-paused"
		}
		return &proto.RaftLog{Op: proto.Op_RESUME_STREAM, ResumeStreamOp: &proto.ResumeStreamOp{Stream: name, Partitions: ids}}, lab
	case "readonly":
		if st == nil {
			return nil, ""
		}
		// SetReadonly touches the commit log, which a paused partition has closed;
		// the controller does not check this, real clusters do it on running streams
		ids := parts()
		for _, id := range ids {
			if st.parts[id].paused {
				return nil, ""
			}
		}
		lab := "readonly-off"
		if op.B {
			lab = "readonly-on"
		}
		return &proto.RaftLog{Op: proto.Op_SET_STREAM_READONLY, SetStreamReadonlyOp: &proto.SetStreamReadonlyOp{Stream: name, Partitions: ids, Readonly: op.B}}, lab
	case "shrink", "expand", "leader":
		if st == nil {
			return nil, ""
		}
		id := int32(op.P[0] % len(st.parts))
		p := st.parts[id]
		rep := c06Replicas[op.Rep%3]
		switch op.Op {
		case "shrink": // a follower that is in the ISR
			if rep == p.leader || !p.isr[rep] {
				return nil, ""
			}
			delete(p.isr, rep)
			return &proto.RaftLog{Op: proto.Op_SHRINK_ISR, ShrinkISROp: &proto.ShrinkISROp{Stream: name, Partition: id, ReplicaToRemove: rep, Leader: p.leader, LeaderEpoch: p.leaderEpoch}}, "shrink"
		case "expand": // a replica that is not in the ISR
			if p.isr[rep] {
				return nil, ""
			}
			p.isr[rep] = true
			return &proto.RaftLog{Op: proto.Op_EXPAND_ISR, ExpandISROp: &proto.ExpandISROp{Stream: name, Partition: id, ReplicaToAdd: rep, Leader: p.leader, LeaderEpoch: p.leaderEpoch}}, "expand"
		default: // new leader from the ISR, not the current one
			if rep == p.leader || !p.isr[rep] {
				return nil, ""
			}
			p.leader = rep
			p.leaderEpoch = index
			return &proto.RaftLog{Op: proto.Op_CHANGE_LEADER, ChangeLeaderOp: &proto.ChangeLeaderOp{Stream: name, Partition: id, Leader: rep}}, "leader"
		}
	case "join":
		g, mem := fmt.Sprintf("grp%d", op.G), fmt.Sprintf("mem%d", op.M)
		var ss []string
		for _, s := range op.Streams {
			if m.streams[c06StreamName(s)] != nil {
				ss = append(ss, c06StreamName(s))
			}
		}
		if len(ss) == 0 {
			return nil, ""
		}
		if m.groups[g] == nil {
			m.groups[g] = map[string]bool{mem: true}
			return &proto.RaftLog{Op: proto.Op_CREATE_CONSUMER_GROUP, CreateConsumerGroupOp: &proto.CreateConsumerGroupOp{
				ConsumerGroup: &proto.ConsumerGroup{Id: g, Coordinator: "x", Members: []*proto.Consumer{{Id: mem, Streams: ss}}}}}, "group-create"
		}
		if m.groups[g][mem] {
			return nil, ""
		}
		m.groups[g][mem] = true
		return &proto.RaftLog{Op: proto.Op_JOIN_CONSUMER_GROUP, JoinConsumerGroupOp: &proto.JoinConsumerGroupOp{GroupId: g, ConsumerId: mem, Streams: ss}}, "group-join"
	case "leave":
		g, mem := fmt.Sprintf("grp%d", op.G), fmt.Sprintf("mem%d", op.M)
		if m.groups[g] == nil || !m.groups[g][mem] {
			return nil, ""
		}
		delete(m.groups[g], mem)
		lab := "group-leave"
		if len(m.groups[g]) == 0 {
			delete(m.groups, g)
			lab = "group-emptied"
		}
		return &proto.RaftLog{Op: proto.Op_LEAVE_CONSUMER_GROUP, LeaveConsumerGroupOp: &proto.LeaveConsumerGroupOp{GroupId: g, ConsumerId: mem, Expired: op.B}}, lab
	case "coordinator":
		g := fmt.Sprintf("grp%d", op.G)
		if m.groups[g] == nil {
			return nil, ""
		}
		return &proto.RaftLog{Op: proto.Op_CHANGE_CONSUMER_GROUP_COORDINATOR, ChangeConsumerGroupCoordinatorOp: &proto.ChangeConsumerGroupCoordinatorOp{GroupId: g, Coordinator: c06Replicas[op.Rep%3]}}, "group-coordinator"
	case "activity":
		return &proto.RaftLog{Op: proto.Op_PUBLISH_ACTIVITY, PublishActivityOp: &proto.PublishActivityOp{RaftIndex: index - 1}}, "activity"
	}
	return nil, ""
}

// ---- the observable metadata view

func c06View(s *Server) string {
	var b strings.Builder
	streams := s.metadata.GetStreams()
	sort.Slice(streams, func(i, j int) bool { return streams[i].GetName() < streams[j].GetName() })
	for _, st := range streams {
		cfg := ""
		if c := st.GetConfig(); c != nil {
			raw, _ := c.Marshal()
			cfg = fmt.Sprintf("%x", raw)
		}
		fmt.Fprintf(&b, "stream %s subject=%s created=%d config=%s tombstoned=%v\n", st.GetName(), st.GetSubject(), st.GetCreationTime().UnixNano(), cfg, st.IsTombstoned())
		parts := st.GetPartitions()
		ids := make([]int, 0, len(parts))
		for id := range parts {
			ids = append(ids, int(id))
		}
		sort.Ints(ids)
		for _, id := range ids {
			p := parts[int32(id)]
			leader, lepoch := p.GetLeader()
			isr := p.GetISR()
			sort.Strings(isr)
			reps := p.GetReplicas()
			sort.Strings(reps)
			ro := "closed"
			if !p.IsPaused() {
				ro = fmt.Sprint(p.IsReadonly())
			}
			fmt.Fprintf(&b, "  partition %d replicas=%v isr=%v leader=%s leaderEpoch=%d epoch=%d paused=%v readonly=%s\n", id, reps, isr, leader, lepoch, p.GetEpoch(), p.IsPaused(), ro)
		}
	}
	groups := s.metadata.GetConsumerGroups()
	sort.Slice(groups, func(i, j int) bool { return groups[i].GetID() < groups[j].GetID() })
	for _, g := range groups {
		coord, epoch := g.GetCoordinator()
		fmt.Fprintf(&b, "group %s coordinator=%s epoch=%d\n", g.GetID(), coord, epoch)
		mem := g.GetMembers()
		ids := make([]string, 0, len(mem))
		for id := range mem {
			ids = append(ids, id)
		}
		sort.Strings(ids)
		for _, id := range ids {
			ss := mem[id]
			sort.Strings(ss)
			fmt.Fprintf(&b, "  member %s streams=%v\n", id, ss)
		}
	}
	// on-disk stream directories: one per stream that exists, none for deleted
	// streams; every existing partition has its directory (left-over partition
	// directories of an earlier incarnation of a re-created stream are ignored)
	root := filepath.Join(s.config.DataDir, "streams")
	ents, _ := os.ReadDir(root)
	for _, e := range ents {
		fmt.Fprintf(&b, "dir %s\n", e.Name())
	}
	for _, st := range streams {
		for id := range st.GetPartitions() {
			if _, err := os.Stat(filepath.Join(root, st.GetName(), fmt.Sprint(id))); err != nil {
				fmt.Fprintf(&b, "missing partition dir %s/%d\n", st.GetName(), id)
			}
		}
	}
	return b.String()
}

func c06Apply(s *Server, raw []byte, index uint64, recovered bool) error {
	op := &proto.RaftLog{}
	if err := op.Unmarshal(raw); err != nil {
		return err
	}
	_, err := s.apply(op, index, recovered)
	return err
}

func c06Shutdown(s *Server) {
	s.metadata.Reset()
}

type persistBuf struct{ bytes.Buffer }

func (p *persistBuf) ID() string    { return "vf" }
func (p *persistBuf) Cancel() error { return nil }
func (p *persistBuf) Close() error  { return nil }

type rc struct{ *bytes.Reader }

func (rc) Close() error { return nil }

// eventually compares two views, retrying because stream deletion updates
// consumer groups on a goroutine.
func c06Eventually(get func() (string, string)) (string, string, bool) {
	var a, b string
	for _, bound := range []time.Duration{2 * time.Second, 20 * time.Second} {
		deadline := time.Now().Add(bound)
		for time.Now().Before(deadline) {
			a, b = get()
			if a == b {
				return a, b, true
			}
			time.Sleep(300 * time.Microsecond)
		}
	}
	return a, b, false
}

func c06Markers(s *Server, expect map[string][]string, stream string, tag string) {
	st := s.metadata.GetStream(stream)
	if st == nil {
		return
	}
	for id, p := range st.GetPartitions() {
		if p.IsPaused() {
			continue
		}
		v := fmt.Sprintf("marker-%s-%s-%d", tag, stream, id)
		if _, err := p.log.Append([]*commitlog.Message{{MagicByte: 1, Value: []byte(v), Timestamp: time.Now().UnixNano(), LeaderEpoch: 1, Headers: map[string][]byte{}, Offset: -1}}); err == nil {
			k := fmt.Sprintf("%s/%d", stream, id)
			expect[k] = append(expect[k], v)
		}
	}
}

func c06ReadValues(l commitlog.CommitLog) []string {
	var out []string
	if l.NewestOffset() < 0 {
		return nil
	}
	r, err := l.NewReader(l.OldestOffset(), true)
	if err != nil {
		return []string{"<reader error: " + err.Error() + ">"}
	}
	ctx, cancel := context.WithCancel(context.Background())
	cancel()
	hb := make([]byte, 28)
	for {
		m, _, _, _, err := r.ReadMessage(ctx, hb)
		if err != nil {
			return out
		}
		out = append(out, string(m.Value()))
	}
}

func runC06(c c06Case, o *vfutil.Obs) *vfutil.Failure {
	root := vfutil.TempDir("c06")
	defer os.RemoveAll(root)
	// resolve the history
	model := &c06Model{streams: map[string]*c06MStream{}, groups: map[string]map[string]bool{}}
	var raws [][]byte
	var labels []string
	for _, op := range c.Ops {
		rl, lab := model.resolve(op, uint64(len(raws)+1))
		if rl == nil {
			continue
		}
		raw, err := rl.Marshal()
		if err != nil {
			return vfutil.Failf("harness/marshal", "%v", err)
		}
		raws = append(raws, raw)
		labels = append(labels, lab)
	}
	n := len(raws)
	if n == 0 {
		return nil
	}
	snap := c.Snap % (n + 1)
	restart := snap + c.Restart%(n-snap+1)
	hist := strings.Join(labels, ",")

	A := vfBare(filepath.Join(root, "A"), "me")
	A2 := vfBare(filepath.Join(root, "A2"), "me")
	B := vfBare(filepath.Join(root, "B"), "me")
	defer func() { c06Shutdown(A); c06Shutdown(A2); c06Shutdown(B) }()

	expect := map[string][]string{} // markers expected in B's partition logs
	var snapBytes []byte
	var fsmSnap *fsmSnapshot
	persistAt := -1
	beforeSnap := map[string]bool{}
	for i := 0; i < n; i++ {
		idx := uint64(i + 1)
		// ---- reference servers: everything live
		if err := c06Apply(A, raws[i], idx, false); err != nil {
			return vfutil.Failf("C06/apply-error", "history %s: op %d (%s) failed on a fresh server: %v", hist, i, labels[i], err)
		}
		if err := c06Apply(A2, raws[i], idx, false); err != nil {
			return vfutil.Failf("C06/apply-error", "history %s: op %d (%s) failed on the second fresh server: %v", hist, i, labels[i], err)
		}
		if os.Getenv("VERIF_DEBUG") != "" {
			time.Sleep(2 * time.Millisecond)
			fmt.Printf("---- after op %d (%s)\n%s", i+1, labels[i], c06View(A))
		}
		// 1. determinism after every prefix
		if va, vb, ok := c06Eventually(func() (string, string) { return c06View(A), strings.ReplaceAll(c06View(A2), "/A2/", "/A/") }); !ok {
			return vfutil.Failf("C06/nondeterministic", "history %s: after op %d (%s) two servers that applied the same operations differ:\n--- first\n%s--- second\n%s", hist, i, labels[i], va, vb)
		}
		// ---- server B: live up to the restart point
		if i < restart {
			if err := c06Apply(B, raws[i], idx, false); err != nil {
				return vfutil.Failf("C06/apply-error", "history %s: op %d (%s) failed: %v", hist, i, labels[i], err)
			}
			if labels[i] == "create" || labels[i] == "resume-paused" {
				op := &proto.RaftLog{}
				op.Unmarshal(raws[i])
				name := ""
				if op.CreateStreamOp != nil {
					name = op.CreateStreamOp.Stream.Name
					for k := range expect { // a new incarnation starts empty
						if strings.HasPrefix(k, name+"/") {
							delete(expect, k)
						}
					}
				} else {
					name = op.ResumeStreamOp.Stream
				}
				c06Markers(B, expect, name, fmt.Sprintf("b1-%d", i))
			}
			if labels[i] == "delete" {
				op := &proto.RaftLog{}
				op.Unmarshal(raws[i])
				for k := range expect {
					if strings.HasPrefix(k, op.DeleteStreamOp.Stream+"/") {
						delete(expect, k)
					}
				}
			}
		}
		if i+1 <= snap {
			beforeSnap[labels[i]] = true
		}
		if i+1 == snap {
			sn, err := B.Snapshot()
			if err != nil {
				return vfutil.Failf("C06/snapshot-error", "%v", err)
			}
			fsmSnap = sn.(*fsmSnapshot)
			persistAt = i + c.Persist
			if persistAt >= restart {
				persistAt = restart - 1
			}
			if persistAt < i {
				persistAt = i
			}
		}
		if fsmSnap != nil && snapBytes == nil && i == persistAt {
			// hashicorp/raft calls Persist on another goroutine while Apply
			// continues; here c.Persist further operations were applied in between
			sink := &persistBuf{}
			if err := fsmSnap.Persist(sink); err != nil {
				return vfutil.Failf("C06/persist-error", "%v", err)
			}
			snapBytes = append([]byte{}, sink.Bytes()...)
			if persistAt > snap-1 {
				o.Label("persist-after-further-applies")
			}
		}
	}
	if snap > 0 && snapBytes == nil && fsmSnap != nil {
		sink := &persistBuf{}
		if err := fsmSnap.Persist(sink); err != nil {
			return vfutil.Failf("C06/persist-error", "%v", err)
		}
		snapBytes = append([]byte{}, sink.Bytes()...)
	}
	// ---- restart of B: new server over the same data directory
	c06Shutdown(B)
	B2 := vfBare(filepath.Join(root, "B"), "me")
	defer c06Shutdown(B2)
	if snap > 0 {
		if err := B2.Restore(rc{bytes.NewReader(snapBytes)}); err != nil {
			return vfutil.Failf("C06/restore-error", "history %s, snapshot at %d: %v", hist, snap, err)
		}
	}
	snap2, snap2Bytes := 0, []byte(nil)
	if c.Snap2 > 0 && restart-snap >= 1 {
		snap2 = snap + 1 + c.Snap2%(restart-snap) // after replayed op snap2 (1-based), snap < snap2 <= restart
	}
	for i := snap; i < restart; i++ {
		if err := c06Apply(B2, raws[i], uint64(i+1), true); err != nil {
			return vfutil.Failf("C06/replay-error", "history %s, snapshot at %d, restart at %d: replaying op %d (%s) failed: %v", hist, snap, restart, i, labels[i], err)
		}
		if i+1 == snap2 {
			// a Raft snapshot falls into the replay (the snapshot timer, or more
			// than the threshold of entries to replay): taken before the recovery
			// is finished
			sn, err := B2.Snapshot()
			if err != nil {
				return vfutil.Failf("C06/snapshot-error", "during replay: %v", err)
			}
			sink := &persistBuf{}
			if err := sn.(*fsmSnapshot).Persist(sink); err != nil {
				return vfutil.Failf("C06/persist-error", "during replay: %v", err)
			}
			snap2Bytes = append([]byte{}, sink.Bytes()...)
			o.Label("snapshot-taken-during-replay")
		}
		if i == restart-1 {
			if _, _, err := B2.finishedRecovery(uint64(i + 1)); err != nil {
				return vfutil.Failf("C06/recovery-error", "history %s, snapshot at %d, restart at %d: %v", hist, snap, restart, err)
			}
		}
	}
	for i := restart; i < n; i++ {
		if err := c06Apply(B2, raws[i], uint64(i+1), false); err != nil {
			return vfutil.Failf("C06/apply-after-restart-error", "history %s, snapshot at %d, restart at %d: op %d (%s) failed after the restart: %v", hist, snap, restart, i, labels[i], err)
		}
		if os.Getenv("VERIF_DEBUG") != "" {
			time.Sleep(2 * time.Millisecond)
			fmt.Printf("---- B2 after live op %d (%s)\n%s", i+1, labels[i], c06View(B2))
		}
		if labels[i] == "create" {
			op := &proto.RaftLog{}
			op.Unmarshal(raws[i])
			for k := range expect {
				if strings.HasPrefix(k, op.CreateStreamOp.Stream.Name+"/") {
					delete(expect, k)
				}
			}
		}
		if labels[i] == "delete" {
			op := &proto.RaftLog{}
			op.Unmarshal(raws[i])
			for k := range expect {
				if strings.HasPrefix(k, op.DeleteStreamOp.Stream+"/") {
					delete(expect, k)
				}
			}
		}
	}
	// (tripwire for the harness itself: the generator's idea of leaders and
	// in-sync sets, from which it builds the operations, is what the servers
	// hold - an operation the FSM drops would silently thin out the histories)
	for name, ms := range model.streams {
		for id, mp := range ms.parts {
			p := A.metadata.GetPartition(name, int32(id))
			if p == nil {
				continue
			}
			l, _ := p.GetLeader()
			isr := p.GetISR()
			sort.Strings(isr)
			var want []string
			for r := range mp.isr {
				want = append(want, r)
			}
			sort.Strings(want)
			if l != mp.leader || fmt.Sprint(isr) != fmt.Sprint(want) {
				return vfutil.Failf("harness/model-disagrees", "history %s: partition %s/%d has leader %s and ISR %v, the generator's model says %s and %v", hist, name, id, l, isr, mp.leader, want)
			}
		}
	}
	// 2. restart stability
	va, vb, ok := c06Eventually(func() (string, string) { return c06View(A), strings.ReplaceAll(c06View(B2), "/B/", "/A/") })
	if !ok {
		cls := c06DiffClass(va, vb)
		return vfutil.Failf("C06/restart-changes-state/"+cls, "history %s, snapshot after op %d, restart after op %d: the restarted server differs from one that applied everything live:\n--- live\n%s--- restarted\n%s", hist, snap, restart, va, vb)
	}
	// 3. replay safety: marker messages of streams that still exist survived
	for k, want := range expect {
		parts := strings.Split(k, "/")
		var id int32
		fmt.Sscanf(parts[1], "%d", &id)
		p := B2.metadata.GetPartition(parts[0], id)
		if p == nil {
			continue // deleted later; covered by the view comparison
		}
		if p.IsPaused() {
			continue
		}
		got := c06ReadValues(p.log)
		if strings.Join(got, ",") != strings.Join(want, ",") {
			return vfutil.Failf("C06/replay-lost-data", "history %s, snapshot after op %d, restart after op %d: partition %s holds %v after the restart, want %v", hist, snap, restart, k, got, want)
		}
	}
	// 4. a third incarnation, from the snapshot taken during the replay: it
	// replays everything behind that snapshot and must end where the others are
	if snap2Bytes != nil {
		c06Shutdown(B2)
		B3 := vfBare(filepath.Join(root, "B"), "me")
		defer c06Shutdown(B3)
		if err := B3.Restore(rc{bytes.NewReader(snap2Bytes)}); err != nil {
			return vfutil.Failf("C06/restore-error", "history %s, snapshot taken during the replay after op %d: %v", hist, snap2, err)
		}
		for i := snap2; i < n; i++ {
			if err := c06Apply(B3, raws[i], uint64(i+1), true); err != nil {
				return vfutil.Failf("C06/replay-error", "history %s, first snapshot after op %d, restart after op %d, snapshot taken during that replay after op %d: replaying op %d (%s) from it failed: %v", hist, snap, restart, snap2, i, labels[i], err)
			}
		}
		if _, _, err := B3.finishedRecovery(uint64(n)); err != nil {
			return vfutil.Failf("C06/recovery-error", "history %s, snapshot taken during the replay after op %d: %v", hist, snap2, err)
		}
		va, vb, ok := c06Eventually(func() (string, string) { return c06View(A), strings.ReplaceAll(c06View(B3), "/B/", "/A/") })
		if !ok {
			cls := c06DiffClass(va, vb)
			return vfutil.Failf("C06/restart-changes-state/snapshot-during-replay/"+cls, "history %s, first snapshot after op %d, restart after op %d, second snapshot taken during that replay after op %d: a server started from the second snapshot differs from one that applied everything live:\n--- live\n%s--- restarted\n%s", hist, snap, restart, snap2, va, vb)
		}
	}
	// classification
	for _, l := range []string{"create", "delete", "resume-paused", "readonly-on", "leader", "shrink", "expand", "group-emptied"} {
		if beforeSnap[l] {
			o.Label("before-snapshot:" + l)
		}
	}
	interesting := (beforeSnap["delete"] && beforeSnap["create"]) || beforeSnap["resume-paused"] || beforeSnap["readonly-on"] || beforeSnap["leader"] || beforeSnap["shrink"] || beforeSnap["group-emptied"]
	if snap > 0 && snap < n && interesting {
		o.NonTrivial()
	}
	if restart > snap {
		o.Label("log-replay-after-snapshot")
	}
	if snap == 0 {
		o.Label("no-snapshot")
	}
	return nil
}

// c06DiffClass names the first kind of line that differs.
func c06DiffClass(a, b string) string {
	la, lb := strings.Split(a, "\n"), strings.Split(b, "\n")
	for i := 0; i < len(la) && i < len(lb); i++ {
		if la[i] != lb[i] {
			fa, fb := strings.Fields(la[i]), strings.Fields(lb[i])
			if len(fa) > 0 && len(fb) > 0 && fa[0] == fb[0] && len(fa) == len(fb) {
				for j := range fa {
					if fa[j] != fb[j] {
						return fa[0] + "-" + strings.SplitN(fa[j], "=", 2)[0]
					}
				}
			}
			if len(fa) > 0 {
				return fa[0] + "-set"
			}
		}
	}
	return "extra-or-missing-lines"
}

func TestVerifC06(t *testing.T) {
	vfutil.Run(t, vfutil.Spec[c06Case]{ID: "C06", Gen: genC06, Run: runC06})
}
