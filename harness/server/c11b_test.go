//go:build verif

package server

import (
	"fmt"
	"os"
	"path/filepath"
	"testing"
	"time"

	client "github.com/liftbridge-io/liftbridge-api/v2/go"

	proto "github.com/liftbridge-io/liftbridge/server/protocol"
	"github.com/liftbridge-io/liftbridge/server/vfutil"
	"pgregory.net/rapid"
)

// C11b: cursors across changes of the cursors-partition leader. Three bare
// servers share one NATS server; the harness is the Raft log (as in C02). The
// cursors stream has one partition replicated to all three; SetCursor and
// FetchCursor are always sent to the server that currently leads it.

type c11bOp struct {
	Op    string `json:"op"` // set | fetch | leader | clean | settle
	Key   int    `json:"key,omitempty"`
	Val   int64  `json:"val,omitempty"`
	X     int    `json:"x,omitempty"`     // leader: which of the other two replicas
	Order int    `json:"order,omitempty"` // leader: 0 new leader applies first, 1 followers first
}

type c11bCase struct {
	Ops []c11bOp `json:"ops"`
}

func genC11b(t *rapid.T) c11bCase {
	var c c11bCase
	n := rapid.IntRange(5, 40).Draw(t, "nops")
	for i := 0; i < n; i++ {
		op := c11bOp{Op: rapid.SampledFrom([]string{"set", "set", "set", "fetch", "fetch", "fetchold", "leader", "leader", "clean", "settle"}).Draw(t, "op")}
		op.Key = rapid.IntRange(0, 3).Draw(t, "key")
		op.Val = int64(rapid.IntRange(0, 1000000).Draw(t, "val"))
		op.X = rapid.IntRange(0, 1).Draw(t, "x")
		op.Order = rapid.IntRange(0, 1).Draw(t, "order")
		c.Ops = append(c.Ops, op)
	}
	return c
}

func runC11b(c c11bCase, o *vfutil.Obs) *vfutil.Failure {
	c02NATSOnce.Do(func() { c02NS = vfStartNATS() })
	root, _ := os.MkdirTemp(scratchRoot(), "c11b")
	// the directory stays until the driver removes the shard's scratch space: a
	// straggling replication goroutine that writes after the case has ended
	// would otherwise panic the process
	_ = root
	c02Seq++
	w := &c02World{ns: c02NS, name: cursorsStream, nsName: fmt.Sprintf("c11b%d", c02Seq), nodes: map[string]*c02Node{}}
	ids := []string{"a", "b", "c"}
	for _, id := range ids {
		n := &c02Node{id: id, dir: filepath.Join(root, id)}
		w.nodes[id] = n
		s, err := vfL1(n.dir, n.id, w.ns, func(c *Config) {
			c.Clustering.Namespace = w.nsName
			c.Streams.SegmentMaxBytes = 300
			c.Streams.SegmentMaxAge = 0
			c.CursorsStream.Partitions = 1
		})
		if err != nil {
			return vfutil.Failf("harness/start", "%v", err)
		}
		n.s, n.up = s, true
	}
	defer func() {
		for _, n := range w.nodes {
			vfL1Close(n.s)
		}
	}()
	subject := w.nsName + ".cursors"
	create := &proto.RaftLog{Op: proto.Op_CREATE_STREAM, CreateStreamOp: &proto.CreateStreamOp{Stream: &proto.Stream{Name: cursorsStream, Subject: subject,
		Config: &proto.StreamConfig{CompactEnabled: &proto.NullableBool{Value: true}},
		Partitions: []*proto.Partition{{Subject: subject, Stream: cursorsStream, Id: 0, ReplicationFactor: 3,
			Replicas: []string{"a", "b", "c"}, Isr: []string{"a", "b", "c"}, Leader: "a"}}}}}
	if err := w.propose(create, "create", ids); err != nil {
		return vfutil.Failf("harness/create", "%v", err)
	}
	leader := "a"
	waitRoles := func() error {
		deadline := time.Now().Add(10 * time.Second)
		for time.Now().Before(deadline) {
			ok := true
			for _, id := range ids {
				p := w.part(w.nodes[id])
				if p == nil {
					ok = false
					break
				}
				if id == leader {
					ok = ok && p.IsLeader()
				} else {
					p.mu.RLock()
					ok = ok && p.isFollowing
					p.mu.RUnlock()
				}
			}
			if ok {
				return nil
			}
			time.Sleep(time.Millisecond)
		}
		return fmt.Errorf("replicas did not take their roles for leader %s", leader)
	}
	if err := waitRoles(); err != nil {
		return vfutil.Failf("harness/roles", "%v", err)
	}
	// model: the set of values a fetch may return (one value unless a SetCursor
	// failed, in which case the cursor may or may not have been stored)
	model := map[int][]int64{}
	var hist []string
	leaderChanges, setsSinceChange, fetchAfterChange := 0, 0, false
	keyOf := func(k int) (string, string, int32) { return fmt.Sprintf("cur%d", k), "stream", int32(k % 2) }
	doFetch := func(k int) *vfutil.Failure {
		id, st, p := keyOf(k)
		ctx, cancel := ctxFor("", 10*time.Second)
		resp, err := w.nodes[leader].s.api.FetchCursor(ctx, &client.FetchCursorRequest{Stream: st, Partition: p, CursorId: id})
		cancel()
		if err != nil {
			hist = append(hist, fmt.Sprintf("fetch@%s(k%d)=err(%v)", leader, k, err))
			o.Label("fetch-error")
			return nil
		}
		hist = append(hist, fmt.Sprintf("fetch@%s(k%d)=%d", leader, k, resp.Offset))
		want := model[k]
		if len(want) == 0 {
			want = []int64{-1}
		}
		for _, v := range want {
			if v == resp.Offset {
				if leaderChanges > 0 {
					fetchAfterChange = true
				}
				return nil
			}
		}
		cls := "stale-value"
		if resp.Offset == -1 {
			cls = "lost"
		}
		return vfutil.Failf("C11/wrong-cursor-after-leader-change/"+cls, "FetchCursor(k%d) on leader %s returned %d, the last successful SetCursor stored %v; history %v", k, leader, resp.Offset, want, tailS(hist, 40))
	}
	for _, op := range c.Ops {
		switch op.Op {
		case "set":
			id, st, p := keyOf(op.Key)
			ctx, cancel := ctxFor("", 10*time.Second)
			_, err := w.nodes[leader].s.api.SetCursor(ctx, &client.SetCursorRequest{Stream: st, Partition: p, CursorId: id, Offset: op.Val})
			cancel()
			if err == nil {
				model[op.Key] = []int64{op.Val}
				setsSinceChange++
			} else {
				prev := model[op.Key]
				if len(prev) == 0 {
					prev = []int64{-1}
				}
				model[op.Key] = append(append([]int64{}, prev...), op.Val)
				o.Label("set-error")
			}
			hist = append(hist, fmt.Sprintf("set@%s(k%d=%d)%s", leader, op.Key, op.Val, errMark(err)))
		case "fetch":
			if f := doFetch(op.Key); f != nil {
				return f
			}
		case "fetchold":
			// a client with stale metadata asks a server that does not lead the
			// cursors partition (any more): it is refused - or, if it answers, with
			// what the last successful SetCursor stored
			var others []string
			for _, id := range ids {
				if id != leader {
					others = append(others, id)
				}
			}
			srv := others[op.X%2]
			id, st, p := keyOf(op.Key)
			ctx, cancel := ctxFor("", 10*time.Second)
			resp, err := w.nodes[srv].s.api.FetchCursor(ctx, &client.FetchCursorRequest{Stream: st, Partition: p, CursorId: id})
			cancel()
			if err != nil {
				hist = append(hist, fmt.Sprintf("fetch@non-leader-%s(k%d)=refused", srv, op.Key))
				o.Label("fetch-on-non-leader-refused")
				continue
			}
			hist = append(hist, fmt.Sprintf("fetch@non-leader-%s(k%d)=%d", srv, op.Key, resp.Offset))
			want := model[op.Key]
			if len(want) == 0 {
				want = []int64{-1}
			}
			okv := false
			for _, v := range want {
				if v == resp.Offset {
					okv = true
				}
			}
			if !okv {
				return vfutil.Failf("C11/wrong-cursor-from-non-leader", "FetchCursor(k%d) on %s, which does not lead the cursors partition (leader %s), succeeded with %d; the last successful SetCursor stored %v; history %v", op.Key, srv, leader, resp.Offset, want, tailS(hist, 40))
			}
		case "clean":
			if p := w.part(w.nodes[leader]); p != nil {
				if err := p.log.Clean(); err != nil {
					return vfutil.Failf("C11/clean-error", "%v", err)
				}
			}
			hist = append(hist, "clean@"+leader)
		case "settle":
			time.Sleep(30 * time.Millisecond)
			hist = append(hist, "settle")
		case "leader":
			var others []string
			for _, id := range ids {
				if id != leader {
					others = append(others, id)
				}
			}
			nl := others[op.X%2]
			order := []string{nl}
			for _, id := range ids {
				if id != nl {
					order = append(order, id)
				}
			}
			// the new leader always applies the change first: a follower that
			// cannot reach its new leader falls back to truncating to its own HW,
			// which is the open finding C02-hw-truncation-fallback and not what
			// this unit is about
			chg := &proto.RaftLog{Op: proto.Op_CHANGE_LEADER, ChangeLeaderOp: &proto.ChangeLeaderOp{Stream: cursorsStream, Partition: 0, Leader: nl}}
			if err := w.propose(chg, "leader="+nl, order); err != nil {
				return vfutil.Failf("C11/apply-error", "%v", err)
			}
			hist = append(hist, fmt.Sprintf("leader(%s->%s)", leader, nl))
			leader = nl
			leaderChanges++
			setsSinceChange = 0
			if err := waitRoles(); err != nil {
				return vfutil.Failf("harness/roles", "%v; history %v", err, tailS(hist, 30))
			}
		}
	}
	for k := 0; k < 4; k++ {
		if f := doFetch(k); f != nil {
			return f
		}
	}
	if os.Getenv("VERIF_HIST") != "" {
		fmt.Println("history:", hist)
	}
	if leaderChanges >= 2 {
		o.Label("two-leader-changes")
	}
	if leaderChanges > 0 && fetchAfterChange {
		o.NonTrivial()
	}
	return nil
}

func TestVerifC11b(t *testing.T) {
	defer func() {
		if c02NS != nil {
			c02NS.Shutdown()
		}
	}()
	vfutil.Run(t, vfutil.Spec[c11bCase]{ID: "C11", Gen: genC11b, Run: runC11b, Journal: true})
}
