//go:build verif

package server

import (
	"bytes"
	"encoding/json"
	"fmt"
	"io"
	"net/http"
	"os"
	"strings"
	"sync"
	"testing"
	"time"

	client "github.com/liftbridge-io/liftbridge-api/v2/go"

	"github.com/liftbridge-io/liftbridge/server/telemetry"
	"github.com/liftbridge-io/liftbridge/server/vfutil"
	"pgregory.net/rapid"
)

// C19b: a started server with telemetry off makes no telemetry request; with
// telemetry on, the report carries only the documented fields.

type c19bCase struct {
	Enabled bool   `json:"enabled"`
	Marker  string `json:"marker"`
	Streams int    `json:"streams"`
	// telemetry interval in seconds of a disabled configuration (0 and negative
	// values included: nothing reads it while telemetry is off); 1 when enabled
	Interval int `json:"interval"`
}

func genC19b(t *rapid.T) c19bCase {
	c := c19bCase{Enabled: rapid.Bool().Draw(t, "enabled"), Marker: "MRK" + rapid.StringMatching(`[a-z]{5}`).Draw(t, "marker"), Streams: rapid.IntRange(0, 2).Draw(t, "streams"), Interval: 1}
	if !c.Enabled {
		c.Interval = rapid.SampledFrom([]int{1, 1, 0, -1, 86400}).Draw(t, "interval")
	}
	return c
}

type c19Recorder struct {
	mu   sync.Mutex
	reqs []struct {
		URL  string
		Hdr  http.Header
		Body []byte
	}
}

func (r *c19Recorder) RoundTrip(req *http.Request) (*http.Response, error) {
	var body []byte
	if req.Body != nil {
		body, _ = io.ReadAll(req.Body)
	}
	r.mu.Lock()
	r.reqs = append(r.reqs, struct {
		URL  string
		Hdr  http.Header
		Body []byte
	}{req.URL.String(), req.Header.Clone(), body})
	r.mu.Unlock()
	return &http.Response{StatusCode: 200, Body: io.NopCloser(bytes.NewReader(nil)), Header: http.Header{}, Request: req}, nil
}

var c19Keys = map[string]bool{"instance_id": true, "timestamp": true, "liftbridge_version": true, "os": true, "os.name": true, "os.version": true,
	"os.architecture": true, "os.platform": true, "cpu": true, "cpu.physical_cores": true, "cpu.logical_cores": true, "cpu.frequency_mhz": true, "memory": true, "memory.total_gb": true}

func runC19b(c c19bCase, o *vfutil.Obs) *vfutil.Failure {
	rec := &c19Recorder{}
	saved := http.DefaultTransport
	http.DefaultTransport = rec
	defer func() { http.DefaultTransport = saved }()

	ns := vfStartNATS()
	defer ns.Shutdown()
	dir, _ := os.MkdirTemp(scratchRoot(), c.Marker)
	defer os.RemoveAll(dir)
	s, err := vfStart(dir, "a", ns, func(cfg *Config) {
		cfg.Telemetry.Enabled = c.Enabled
		cfg.Telemetry.IntervalSeconds = c.Interval
		if c.Enabled {
			cfg.Telemetry.IntervalSeconds = 1
		}
		cfg.NATS.User = c.Marker + "user" // never used for authentication by the test NATS server
		cfg.NATS.Password = c.Marker + "password"
		cfg.Clustering.Namespace = c.Marker + "ns"
	})
	if err != nil {
		return vfutil.Failf("harness/start", "%v", err)
	}
	for i := 0; i < c.Streams; i++ {
		ctx, cancel := ctxFor("", 20*time.Second)
		name := fmt.Sprintf("%sstream%d", c.Marker, i)
		_, err := s.api.CreateStream(ctx, &client.CreateStreamRequest{Name: name, Subject: c.Marker + "subject", Partitions: 1})
		cancel()
		if err != nil {
			s.Stop()
			return vfutil.Failf("harness/create", "%v", err)
		}
		if err := waitLeader(s, name); err == nil {
			ctx, cancel := ctxFor("", 20*time.Second)
			s.api.Publish(ctx, &client.PublishRequest{Stream: name, Value: []byte(c.Marker + "payload"), AckPolicy: client.AckPolicy_ALL})
			cancel()
		}
	}
	if c.Enabled {
		deadline := time.Now().Add(20 * time.Second)
		for time.Now().Before(deadline) {
			rec.mu.Lock()
			n := len(rec.reqs)
			rec.mu.Unlock()
			if n > 0 {
				break
			}
			time.Sleep(time.Millisecond)
		}
	} else {
		time.Sleep(30 * time.Millisecond)
		if s.telemetry != nil {
			// a collector exists although telemetry is off: that alone is not a
			// request, but it is worth watching for longer (an enabled collector
			// sends its first report at once)
			o.Label("collector-exists-while-disabled")
			for deadline := time.Now().Add(2 * time.Second); time.Now().Before(deadline); {
				rec.mu.Lock()
				n := len(rec.reqs)
				rec.mu.Unlock()
				if n > 0 {
					break
				}
				time.Sleep(5 * time.Millisecond)
			}
		}
	}
	s.Stop()
	rec.mu.Lock()
	reqs := rec.reqs
	rec.mu.Unlock()
	if !c.Enabled {
		o.Label("disabled")
		if c.Streams > 0 {
			o.NonTrivial()
		}
		if len(reqs) != 0 {
			return vfutil.Failf("C19/disabled-but-reported", "telemetry disabled but %d HTTP request(s) were made, first to %s", len(reqs), reqs[0].URL)
		}
		o.Label(fmt.Sprintf("disabled-interval:%d", c.Interval))
		return nil
	}
	o.Label("enabled")
	o.NonTrivial()
	if len(reqs) == 0 {
		return vfutil.Failf("C19/enabled-no-report/bounded-liveness(20s)", "telemetry enabled but nothing was sent")
	}
	for _, rq := range reqs {
		if rq.URL != telemetry.DefaultEndpoint {
			return vfutil.Failf("C19/other-endpoint", "request to %s", rq.URL)
		}
		var v map[string]interface{}
		if err := json.Unmarshal(rq.Body, &v); err != nil {
			return vfutil.Failf("C19/payload-not-json", "%v", err)
		}
		var walk func(prefix string, x interface{}) string
		walk = func(prefix string, x interface{}) string {
			if m, ok := x.(map[string]interface{}); ok {
				for k, val := range m {
					p := k
					if prefix != "" {
						p = prefix + "." + k
					}
					if !c19Keys[p] {
						return p
					}
					if bad := walk(p, val); bad != "" {
						return bad
					}
				}
			}
			return ""
		}
		if bad := walk("", v); bad != "" {
			return vfutil.Failf("C19/undocumented-field", "telemetry payload carries undocumented field %q: %s", bad, rq.Body)
		}
		hay := string(rq.Body)
		for k, vs := range rq.Hdr {
			hay += "\n" + k + ": " + strings.Join(vs, ",")
		}
		for _, m := range []string{c.Marker, dir, ns.ClientURL(), "127.0.0.1"} {
			if strings.Contains(hay, m) {
				return vfutil.Failf("C19/user-data-in-report", "telemetry request contains %q: %s", m, hay)
			}
		}
	}
	return nil
}

func TestVerifC19b(t *testing.T) {
	vfutil.Run(t, vfutil.Spec[c19bCase]{ID: "C19", Gen: genC19b, Run: runC19b, Journal: true})
}
