//go:build verif

package server

import (
	"math"
	"bytes"
	"fmt"
	"os"
	"path/filepath"
	"sort"
	"strings"
	"sync"
	"testing"
	"time"

	client "github.com/liftbridge-io/liftbridge-api/v2/go"
	"google.golang.org/grpc/codes"
	"google.golang.org/grpc/status"

	"github.com/liftbridge-io/liftbridge/server/vfutil"
	"pgregory.net/rapid"
)

// Shared started server for the cheap L3 units (C16b, C17b, C14e, C19b).
var (
	l3Once sync.Once
	l3     *vfL3
	l3Err  error
	l3Seq  int
	l3Mu   sync.Mutex
)

const l3MasterKey = "0123456789abcdef0123456789abcdef"

func l3Setup() (*vfL3, error) {
	l3Once.Do(func() {
		os.Setenv("LIFTBRIDGE_ENCRYPTION_KEY", l3MasterKey)
		l3, l3Err = newVFL3("l3", func(c *Config) {
			c.BatchMaxTime = 0
		})
	})
	return l3, l3Err
}

func l3Name(prefix string) string {
	l3Mu.Lock()
	defer l3Mu.Unlock()
	l3Seq++
	return fmt.Sprintf("%s%d", prefix, l3Seq)
}

func l3Close() {
	if l3 != nil {
		l3.close()
	}
}

func waitLeader(s *Server, stream string) error {
	deadline := time.Now().Add(20 * time.Second)
	for time.Now().Before(deadline) {
		if p := s.metadata.GetPartition(stream, 0); p != nil && p.IsLeader() {
			return nil
		}
		time.Sleep(time.Millisecond)
	}
	return fmt.Errorf("partition leader for %s not running", stream)
}

// ------------------------------------------------------------------- C16b

type c16bPub struct {
	Exp    []int `json:"exp"`    // per publish: 0 waive(-1), 1 last observed end, 2 stale, 3 future, 4-6 negative other than -1
	Policy []int `json:"policy"` // 1 LEADER, 2 ALL
}

type c16bCase struct {
	Pubs    []c16bPub `json:"pubs"`
	Prefill int       `json:"prefill"`
}

func genC16b(t *rapid.T) c16bCase {
	c := c16bCase{Prefill: rapid.IntRange(0, 3).Draw(t, "prefill")}
	k := rapid.IntRange(2, 8).Draw(t, "publishers")
	for i := 0; i < k; i++ {
		n := rapid.IntRange(1, 12).Draw(t, "n")
		var p c16bPub
		for j := 0; j < n; j++ {
			p.Exp = append(p.Exp, rapid.SampledFrom([]int{0, 1, 1, 1, 1, 2, 3, 4, 5, 6}).Draw(t, "exp"))
			p.Policy = append(p.Policy, rapid.IntRange(1, 2).Draw(t, "policy"))
		}
		c.Pubs = append(c.Pubs, p)
	}
	return c
}

type c16bResult struct {
	pub, idx int
	value    string
	expected int64
	ok       bool
	offset   int64
	code     codes.Code
	err      error
}

func runC16b(c c16bCase, o *vfutil.Obs) *vfutil.Failure {
	l, err := l3Setup()
	if err != nil {
		return vfutil.Failf("harness/setup", "%v", err)
	}
	name := l3Name("occ")
	a := l.s.api
	ctx, cancel := ctxFor("", 20*time.Second)
	_, err = a.CreateStream(ctx, &client.CreateStreamRequest{Name: name, Subject: name, Partitions: 1, OptimisticConcurrencyControl: &client.NullableBool{Value: true}})
	cancel()
	if err != nil {
		return vfutil.Failf("harness/create", "%v", err)
	}
	defer func() {
		ctx, cancel := ctxFor("", 20*time.Second)
		a.DeleteStream(ctx, &client.DeleteStreamRequest{Name: name})
		cancel()
	}()
	if err := waitLeader(l.s, name); err != nil {
		return vfutil.Failf("harness/leader", "%v", err)
	}
	p := l.s.metadata.GetPartition(name, 0)
	// NONE is refused on an OCC stream
	{
		ctx, cancel := ctxFor("", 5*time.Second)
		_, err := a.Publish(ctx, &client.PublishRequest{Stream: name, Value: []byte("none"), AckPolicy: client.AckPolicy_NONE, ExpectedOffset: -1})
		cancel()
		if err == nil {
			return vfutil.Failf("C16/none-policy-accepted", "a publish with AckPolicy NONE was accepted on a stream with concurrency control")
		}
	}
	for i := 0; i < c.Prefill; i++ {
		ctx, cancel := ctxFor("", 10*time.Second)
		_, err := a.Publish(ctx, &client.PublishRequest{Stream: name, Value: []byte(fmt.Sprintf("prefill-%d", i)), AckPolicy: client.AckPolicy_ALL, ExpectedOffset: -1})
		cancel()
		if err != nil {
			return vfutil.Failf("C16/waived-publish-rejected", "prefill publish with expected offset -1 failed: %v", err)
		}
	}
	var (
		mu      sync.Mutex
		results []c16bResult
		wg      sync.WaitGroup
	)
	for pi, pub := range c.Pubs {
		wg.Add(1)
		go func(pi int, pub c16bPub) {
			defer wg.Done()
			for j := range pub.Exp {
				end := p.log.NewestOffset() + 1
				var exp int64
				switch pub.Exp[j] {
				case 0:
					exp = -1
				case 1:
					exp = end
				case 2:
					exp = end - 1
					if exp < 0 {
						exp = 0
					}
				case 4, 5, 6:
					// a negative value other than the waiver can never be the assigned offset
					exp = []int64{-2, -7, math.MinInt64}[pub.Exp[j]-4]
				default:
					exp = end + 2
				}
				val := fmt.Sprintf("p%d-%d", pi, j)
				pol := client.AckPolicy_LEADER
				if pub.Policy[j] == 2 {
					pol = client.AckPolicy_ALL
				}
				ctx, cancel := ctxFor("", 20*time.Second)
				resp, err := a.Publish(ctx, &client.PublishRequest{Stream: name, Value: []byte(val), AckPolicy: pol, ExpectedOffset: exp})
				cancel()
				r := c16bResult{pub: pi, idx: j, value: val, expected: exp, err: err}
				if err == nil && resp.Ack != nil {
					r.ok = true
					r.offset = resp.Ack.Offset
				} else {
					r.code = status.Code(err)
				}
				mu.Lock()
				results = append(results, r)
				mu.Unlock()
			}
		}(pi, pub)
	}
	wg.Wait()
	// quiesce and read the log
	deadline := time.Now().Add(20 * time.Second)
	for p.log.HighWatermark() < p.log.NewestOffset() && time.Now().Before(deadline) {
		time.Sleep(time.Millisecond)
	}
	stored := c06ReadValues(p.log)
	at := map[string]int64{}
	for off, v := range stored {
		at[v] = int64(off)
	}
	winners := map[int64][]string{}
	successes := 0
	contended := false
	byExp := map[int64]int{}
	for _, r := range results {
		if r.expected >= 0 {
			byExp[r.expected]++
		}
	}
	for _, r := range results {
		off, present := at[r.value]
		switch {
		case r.ok:
			successes++
			if !present {
				return vfutil.Failf("C16/acked-but-not-stored", "%s acked at offset %d but is not in the log %v", r.value, r.offset, stored)
			}
			if off != r.offset {
				return vfutil.Failf("C16/ack-offset-wrong", "%s acked at offset %d but stored at %d", r.value, r.offset, off)
			}
			if r.expected != -1 && r.offset != r.expected {
				return vfutil.Failf("C16/stored-at-other-offset", "%s expected offset %d but was stored at %d", r.value, r.expected, r.offset)
			}
			if r.expected != -1 {
				winners[r.expected] = append(winners[r.expected], r.value)
				if byExp[r.expected] >= 2 {
					contended = true
				}
			}
		default:
			if r.expected == -1 {
				return vfutil.Failf("C16/waived-publish-rejected", "%s with expected offset -1 failed: %v", r.value, r.err)
			}
			if present {
				return vfutil.Failf("C16/rejected-but-stored", "%s (expected offset %d) was rejected with %v but is stored at offset %d", r.value, r.expected, r.err, off)
			}
			if r.code != codes.Unknown && r.code != codes.FailedPrecondition && r.code != codes.InvalidArgument && r.code != codes.Internal {
				// incorrect offset is reported through convertPublishAsyncError (INCORRECT_OFFSET -> Unknown)
				return vfutil.Failf("C16/wrong-error", "%s (expected offset %d) failed with %v", r.value, r.expected, r.err)
			}
		}
	}
	for exp, ws := range winners {
		if len(ws) > 1 {
			return vfutil.Failf("C16/two-winners", "publishes %v all succeeded with expected offset %d", ws, exp)
		}
	}
	if len(stored) != successes+c.Prefill {
		return vfutil.Failf("C16/log-length", "%d successful publishes + %d prefill but the log holds %d messages: %v", successes, c.Prefill, len(stored), stored)
	}
	o.Count("publishes", len(results))
	o.Count("successes", successes)
	if contended {
		o.Label("contended-offset-won")
		o.NonTrivial()
	}
	return nil
}

func TestVerifC16b(t *testing.T) {
	defer l3Close()
	vfutil.Run(t, vfutil.Spec[c16bCase]{ID: "C16", Gen: genC16b, Run: runC16b, Journal: true})
}

// ------------------------------------------------------------------- C17b

type c17bCase struct {
	Values [][]byte `json:"values"`
	Burst  bool     `json:"burst,omitempty"` // publish all values at once, so that the partition takes them as one batch
	Pause  int      `json:"pause,omitempty"` // k > 0: the stream is paused before value k%n is published (the publish resumes it)
	// how the stream comes to be encrypted: false = the create request asks
	// for it, true = the server-wide default streams.encryption does (a second
	// server, the request says nothing)
	ByDefault bool `json:"bydefault,omitempty"`
}

var (
	l3EncOnce sync.Once
	l3Enc     *vfL3
	l3EncErr  error
)

// l3EncSetup: a started server whose configuration encrypts every stream.
func l3EncSetup() (*vfL3, error) {
	l3EncOnce.Do(func() {
		os.Setenv("LIFTBRIDGE_ENCRYPTION_KEY", l3MasterKey)
		l3Enc, l3EncErr = newVFL3("l3enc", func(c *Config) {
			c.BatchMaxTime = 0
			c.Streams.Encryption = true
		})
	})
	return l3Enc, l3EncErr
}

func genC17b(t *rapid.T) c17bCase {
	var c c17bCase
	c.Burst = rapid.Bool().Draw(t, "burst")
	n := rapid.IntRange(1, 8).Draw(t, "n")
	if c.Burst {
		n = rapid.IntRange(4, 24).Draw(t, "nburst")
	}
	for i := 0; i < n; i++ {
		v := rapid.OneOf(
			rapid.Just([]byte{}),
			rapid.SliceOfN(rapid.Byte(), 1, 7),
			rapid.Map(rapid.IntRange(8, 300), func(n int) []byte {
				return []byte(strings.Repeat("secret-value-", n/13+1)[:n])
			}),
			rapid.SliceOfN(rapid.Byte(), 8, 2000),
		).Draw(t, "v")
		if len(v) >= 8 {
			// make the value unique and recognisable
			v = append([]byte(fmt.Sprintf("#%d#", i)), v...)
		}
		c.Values = append(c.Values, v)
	}
	if rapid.IntRange(0, 2).Draw(t, "pause?") == 0 {
		c.Pause = rapid.IntRange(1, 24).Draw(t, "pause")
	}
	c.ByDefault = rapid.IntRange(0, 2).Draw(t, "bydefault") == 0
	return c
}

func runC17b(c c17bCase, o *vfutil.Obs) *vfutil.Failure {
	l, err := l3Setup()
	if c.ByDefault {
		l, err = l3EncSetup()
		o.Label("encrypted-by-server-default")
	}
	if err != nil {
		return vfutil.Failf("harness/setup", "%v", err)
	}
	name := l3Name("enc")
	a := l.s.api
	req := &client.CreateStreamRequest{Name: name, Subject: name, Partitions: 1}
	if !c.ByDefault {
		req.Encryption = &client.NullableBool{Value: true}
	}
	ctx, cancel := ctxFor("", 20*time.Second)
	_, err = a.CreateStream(ctx, req)
	cancel()
	if err != nil {
		return vfutil.Failf("harness/create", "%v", err)
	}
	dir := filepath.Join(l.dir, "streams", name, "0")
	defer func() {
		ctx, cancel := ctxFor("", 20*time.Second)
		a.DeleteStream(ctx, &client.DeleteStreamRequest{Name: name})
		cancel()
	}()
	if err := waitLeader(l.s, name); err != nil {
		return vfutil.Failf("harness/leader", "%v", err)
	}
	pauseAt := -1
	if c.Pause > 0 && len(c.Values) >= 2 {
		pauseAt = c.Pause % len(c.Values)
		if pauseAt == 0 || c.Burst {
			pauseAt = 1
		}
	}
	pause := func() *vfutil.Failure {
		ctx, cancel := ctxFor("", 20*time.Second)
		_, err := a.PauseStream(ctx, &client.PauseStreamRequest{Name: name})
		cancel()
		if err != nil {
			return vfutil.Failf("harness/pause", "%v", err)
		}
		o.Label("paused-and-resumed-by-publish")
		return nil
	}
	if c.Burst {
		var wg sync.WaitGroup
		errs := make([]error, len(c.Values))
		for i, v := range c.Values {
			if i == 1 && pauseAt == 1 {
				// the first value alone, then the pause, then the rest at once
				wg.Wait()
				if f := pause(); f != nil {
					return f
				}
			}
			wg.Add(1)
			go func(i int, v []byte) {
				defer wg.Done()
				ctx, cancel := ctxFor("", 20*time.Second)
				_, errs[i] = a.Publish(ctx, &client.PublishRequest{Stream: name, Value: v, AckPolicy: client.AckPolicy_ALL})
				cancel()
			}(i, v)
		}
		wg.Wait()
		for i, err := range errs {
			if err != nil {
				return vfutil.Failf("C17/publish-error", "value %d (%d bytes): %v", i, len(c.Values[i]), err)
			}
		}
		o.Label("burst")
	} else {
		for i, v := range c.Values {
			if i == pauseAt {
				if f := pause(); f != nil {
					return f
				}
			}
			ctx, cancel := ctxFor("", 20*time.Second)
			_, err := a.Publish(ctx, &client.PublishRequest{Stream: name, Value: v, AckPolicy: client.AckPolicy_ALL})
			cancel()
			if err != nil {
				return vfutil.Failf("C17/publish-error", "value %d (%d bytes): %v", i, len(v), err)
			}
		}
	}
	// what is on disk
	var raw []byte
	ents, _ := os.ReadDir(dir)
	var names []string
	for _, e := range ents {
		names = append(names, e.Name())
	}
	sort.Strings(names)
	for _, n := range names {
		if strings.HasSuffix(n, ".log") {
			b, _ := os.ReadFile(filepath.Join(dir, n))
			raw = append(raw, b...)
		}
	}
	if len(raw) == 0 {
		return vfutil.Failf("harness/no-segment", "no segment data under %s (%v)", dir, names)
	}
	long := 0
	for i, v := range c.Values {
		if len(v) >= 8 {
			long++
			if bytes.Contains(raw, v) {
				return vfutil.Failf("C17/plaintext-stored", "value %d (%d bytes) appears in clear in the partition's segment files", i, len(v))
			}
		}
	}
	// what a subscriber gets
	sctx, scancel := ctxFor("", 0)
	defer scancel()
	sub, err := a.SubscribeInternal(sctx, &client.SubscribeRequest{Stream: name, StartPosition: client.StartPosition_EARLIEST})
	if err != nil {
		return vfutil.Failf("C17/subscribe-error", "%v", err)
	}
	defer sub.Close()
	pending := map[string]int{}
	for _, v := range c.Values {
		pending[string(v)]++
	}
	for i, v := range c.Values {
		select {
		case m := <-sub.Messages():
			if c.Burst {
				// arrival order of a burst is not defined: compare as a multiset
				if pending[string(m.Value)] == 0 {
					return vfutil.Failf("C17/subscriber-got-other-value", "message %d: subscriber received %d bytes %q, which was not published (or more often than published)", i, len(m.Value), clipB(m.Value))
				}
				pending[string(m.Value)]--
			} else if !bytes.Equal(m.Value, v) {
				return vfutil.Failf("C17/subscriber-got-other-value", "message %d: subscriber received %d bytes %q, published %d bytes %q", i, len(m.Value), clipB(m.Value), len(v), clipB(v))
			}
		case st := <-sub.Errors():
			return vfutil.Failf("C17/subscriber-error", "message %d: %v", i, st.Err())
		case <-time.After(20 * time.Second):
			return vfutil.Failf("C17/subscriber-starved/bounded-liveness(20s)", "message %d of %d not delivered", i, len(c.Values))
		}
	}
	if long > 0 {
		o.NonTrivial()
	}
	o.Count("values", len(c.Values))
	return nil
}

func clipB(b []byte) []byte {
	if len(b) > 32 {
		return b[:32]
	}
	return b
}

func TestVerifC17b(t *testing.T) {
	defer l3Close()
	defer func() {
		if l3Enc != nil {
			l3Enc.close()
		}
	}()
	vfutil.Run(t, vfutil.Spec[c17bCase]{ID: "C17", Gen: genC17b, Run: runC17b, Journal: true})
}
