//go:build verif

package server

import (
	"fmt"
	"reflect"
	"sync"
	"testing"
	"time"

	pb "github.com/golang/protobuf/proto"
	client "github.com/liftbridge-io/liftbridge-api/v2/go"
	"github.com/nats-io/nats.go"

	proto "github.com/liftbridge-io/liftbridge/server/protocol"
	"github.com/liftbridge-io/liftbridge/server/vfutil"
	"pgregory.net/rapid"
)

// C14h: the handlers behind the server's internal NATS subjects (replication,
// leader-epoch offsets, propagated operations, server info, partition status,
// partition notifications, Raft join) receive whatever a NATS client sends
// there. A byte string that does not decode as the handler's envelope type must
// be dropped: the handler returns, nothing panics. (Byte strings that DO decode
// are skipped: what a handler does with a well-formed internal request of
// hostile content is not what C14 states - DESIGN.md 11.7.)

type c14hCase struct {
	Handler int    `json:"handler"`
	Data    []byte `json:"data"`
}

var c14hNames = []string{"replication-request", "leader-epoch-offset-request", "replication-response", "propagated-request", "server-info-request",
	"partition-status-request", "partition-notification", "raft-join-request"}

func c14hPayloads(h int) *rapid.Generator[[]byte] {
	return rapid.Custom(func(t *rapid.T) []byte {
		var m pb.Message
		switch h {
		case 0, 2:
			m = new(proto.ReplicationRequest)
		case 1:
			m = new(proto.LeaderEpochOffsetRequest)
		case 3:
			m = new(proto.PropagatedRequest)
		case 4:
			m = new(proto.ServerInfoRequest)
		case 5:
			m = new(proto.PartitionStatusRequest)
		case 6:
			m = new(proto.PartitionNotification)
		default:
			m = new(proto.RaftJoinRequest)
		}
		vfutil.FillProto(t, reflect.ValueOf(m), "req", 1)
		b, err := pb.Marshal(m)
		if err != nil {
			panic(err)
		}
		return b
	})
}

func genC14h(t *rapid.T) c14hCase {
	h := rapid.IntRange(0, len(c14hNames)-1).Draw(t, "handler")
	return c14hCase{Handler: h, Data: vfutil.GenEnvelopeBytes(t, c14hPayloads(h))}
}

var (
	c14hOnce   sync.Once
	c14hL3     *vfL3
	c14hErr    error
	c14hStream = "c14h"
)

func c14hSetup() (*vfL3, error) {
	c14hOnce.Do(func() {
		c14hL3, c14hErr = newVFL3("c14h", nil)
		if c14hErr != nil {
			return
		}
		ctx, cancel := ctxFor("", 20*time.Second)
		_, c14hErr = c14hL3.s.api.CreateStream(ctx, &client.CreateStreamRequest{Name: c14hStream, Subject: c14hStream, Partitions: 1})
		cancel()
		if c14hErr == nil {
			c14hErr = waitLeader(c14hL3.s, c14hStream)
		}
	})
	return c14hL3, c14hErr
}

func runC14h(c c14hCase, o *vfutil.Obs) (f *vfutil.Failure) {
	l, err := c14hSetup()
	if err != nil {
		return vfutil.Failf("harness/setup", "%v", err)
	}
	s := l.s
	p := s.metadata.GetPartition(c14hStream, 0)
	if p == nil {
		return vfutil.Failf("harness/setup", "partition missing")
	}
	name := c14hNames[c.Handler%len(c14hNames)]
	var decErr error
	switch c.Handler % len(c14hNames) {
	case 0:
		_, decErr = proto.UnmarshalReplicationRequest(c.Data)
	case 1:
		_, decErr = proto.UnmarshalLeaderEpochOffsetRequest(c.Data)
	case 2:
		_, _, _, decErr = proto.UnmarshalReplicationResponse(c.Data)
	case 3:
		_, decErr = proto.UnmarshalPropagatedRequest(c.Data)
	case 4:
		_, decErr = proto.UnmarshalServerInfoRequest(c.Data)
	case 5:
		_, decErr = proto.UnmarshalPartitionStatusRequest(c.Data)
	case 6:
		_, decErr = proto.UnmarshalPartitionNotification(c.Data)
	default:
		_, decErr = proto.UnmarshalRaftJoinRequest(c.Data)
	}
	if decErr == nil {
		o.Label("decodes:skipped")
		return nil
	}
	o.Label("undecodable->" + name)
	o.NonTrivial()
	msg := &nats.Msg{Subject: "x", Reply: "_INBOX.none", Data: c.Data}
	defer func() {
		if r := recover(); r != nil {
			f = vfutil.Failf("C14/handler-panics/"+name, "the %s handler panicked on % x (which does not decode: %v): %v", name, clipB(c.Data), decErr, r)
		}
	}()
	switch c.Handler % len(c14hNames) {
	case 0:
		p.handleReplicationRequest(msg)
	case 1:
		p.handleLeaderOffsetRequest(msg)
	case 2:
		p.handleReplicationResponse(msg)
	case 3:
		s.handlePropagatedRequest(msg)
	case 4:
		s.handleServerInfoRequest(msg)
	case 5:
		s.handlePartitionStatusRequest(msg)
	case 6:
		s.handlePartitionNotification(msg)
	default:
		s.newClusterJoinRequestHandler(s.getRaft().Raft)(msg)
	}
	return nil
}

func TestVerifC14h(t *testing.T) {
	defer func() {
		if c14hL3 != nil {
			c14hL3.close()
		}
	}()
	vfutil.Run(t, vfutil.Spec[c14hCase]{ID: "C14", Gen: genC14h, Run: runC14h})
}

var _ = fmt.Sprintf
