//go:build verif

package server

import (
	"runtime"
	"strings"
	"sync/atomic"

	"github.com/liftbridge-io/liftbridge/server/logger"
	"fmt"
	"os"
	"path/filepath"
	"time"

	gnatsd "github.com/nats-io/nats-server/v2/server"
)

// L4: a started multi-server cluster in one process: its own NATS server on a
// random port, gRPC on port 0, real hashicorp/raft between the servers.

// vfWatchLogger passes everything through and counts the error messages that
// tell that a follower fell back to truncating its log to its own HW (the open
// finding C02-hw-truncation-fallback).
type vfWatchLogger struct {
	logger.Logger
	hwFallbacks *int64
}

func (l *vfWatchLogger) Errorf(format string, v ...interface{}) {
	if strings.HasPrefix(format, "Failed to fetch last offset for leader epoch") {
		atomic.AddInt64(l.hwFallbacks, 1)
	}
	l.Logger.Errorf(format, v...)
}

type vfCluster struct {
	stopHung    bool  // a Server.Stop() did not return
	hwFallbacks int64 // followers that truncated to their HW because the leader could not be reached
	ns     *gnatsd.Server
	root   string
	nsName string
	ids    []string
	srv    map[string]*Server // nil = stopped
	mut    func(*Config)
}

var vfClusterSeq int

func newVFCluster(prefix string, ids []string, mut func(*Config)) (*vfCluster, error) {
	vfClusterSeq++
	c := &vfCluster{ns: vfStartNATS(), ids: ids, srv: map[string]*Server{}, mut: mut, nsName: fmt.Sprintf("vfc%d", vfClusterSeq)}
	d, err := os.MkdirTemp(scratchRoot(), prefix)
	if err != nil {
		c.ns.Shutdown()
		return nil, err
	}
	c.root = d
	for i, id := range ids {
		if err := c.start(id, i == 0); err != nil {
			c.close()
			return nil, err
		}
		if i == 0 {
			if _, _, err := c.leader(20 * time.Second); err != nil {
				c.close()
				return nil, err
			}
		}
	}
	// wait until every server is a voter
	deadline := time.Now().Add(30 * time.Second)
	for time.Now().Before(deadline) {
		l, _, err := c.leader(time.Second)
		if err == nil {
			f := l.getRaft().GetConfiguration()
			if f.Error() == nil && len(f.Configuration().Servers) == len(ids) {
				return c, nil
			}
		}
		time.Sleep(5 * time.Millisecond)
	}
	c.close()
	return nil, fmt.Errorf("cluster of %d did not form within 30s", len(ids))
}

func (c *vfCluster) start(id string, seed bool) error {
	if c.stopHung {
		return fmt.Errorf("an earlier Stop() did not return (its data directory is still locked)")
	}
	cfg := vfConfig(filepath.Join(c.root, id), id)
	cfg.NATS.Servers = []string{c.ns.ClientURL()}
	cfg.Port = 0
	cfg.Host = "127.0.0.1"
	cfg.Clustering.Namespace = c.nsName
	cfg.Clustering.RaftBootstrapSeed = seed
	cfg.LogRaft = false
	if c.mut != nil {
		c.mut(cfg)
	}
	s := New(cfg)
	s.logger = &vfWatchLogger{Logger: s.logger, hwFallbacks: &c.hwFallbacks}
	if err := s.Start(); err != nil {
		return err
	}
	c.srv[id] = s
	return nil
}

func (c *vfCluster) stop(id string) {
	if s := c.srv[id]; s != nil {
		done := make(chan struct{})
		go func() { s.Stop(); close(done) }()
		select {
		case <-done:
		case <-time.After(60 * time.Second):
			// keep a goroutine dump: a Stop that does not return is worth a look
			buf := make([]byte, 8<<20)
			n := runtime.Stack(buf, true)
			os.WriteFile(filepath.Join(c.root, "stop-hangs-"+id+".txt"), buf[:n], 0o644)
			fmt.Printf("HARNESS: Stop() of server %s did not return within 60s; goroutine dump in %s\n", id, c.root)
			c.stopHung = true
		}
		c.srv[id] = nil
	}
}

// leader returns the unique running server that considers itself metadata
// leader and has finished its promotion.
func (c *vfCluster) leader(timeout time.Duration) (*Server, string, error) {
	deadline := time.Now().Add(timeout)
	for {
		var l *Server
		var lid string
		n := 0
		for _, id := range c.ids {
			s := c.srv[id]
			if s == nil || s.getRaft() == nil {
				continue
			}
			if s.IsLeader() {
				l, lid = s, id
				n++
			}
		}
		if n == 1 {
			return l, lid, nil
		}
		if time.Now().After(deadline) {
			return nil, "", fmt.Errorf("%d metadata leaders after %v", n, timeout)
		}
		time.Sleep(2 * time.Millisecond)
	}
}

func (c *vfCluster) close() {
	for _, id := range c.ids {
		c.stop(id)
	}
	c.ns.Shutdown()
	if os.Getenv("VERIF_LEAKS") != "" {
		time.Sleep(50 * time.Millisecond)
		buf := make([]byte, 8<<20)
		n := runtime.Stack(buf, true)
		for _, g := range strings.Split(string(buf[:n]), "\n\n") {
			if strings.Contains(g, "checkpointHWLoop") {
				fmt.Println("LEAKED COMMIT LOG:\n" + g)
			}
		}
	}
	// The data directories stay until the driver removes the shard's scratch
	// space: a server that is stopped while its FSM is still applying an
	// operation can leave a commit log behind whose checkpoint loop panics the
	// process once its directory is gone (the same race makes the repository's
	// own suite flaky under load).
}
