//go:build verif

package server

import (
	"fmt"
	"os"
	"path/filepath"
	"testing"

	"github.com/liftbridge-io/liftbridge/server/vfutil"
	"pgregory.net/rapid"
)

// Configuration routes for C15 (ACL switch) and C19 (telemetry opt-out).

type cfgCase struct {
	Auth    int    `json:"auth"`  // tls.client.auth.enabled: 0 absent, 1 false, 2 true
	Authz   int    `json:"authz"` // tls.client.authz.enabled
	TelFile int    `json:"telfile"` // telemetry.enabled in the file: 0 absent, 1 false, 2 true
	TelEnv  string `json:"telenv"`  // LIFTBRIDGE_TELEMETRY_ENABLED: "" unset
	NoFile  bool   `json:"nofile"`  // start without a configuration file
	Extra   int    `json:"extra"`   // unrelated settings present in the file
}

func genCfg(t *rapid.T) cfgCase {
	return cfgCase{
		Auth:    rapid.IntRange(0, 2).Draw(t, "auth"),
		Authz:   rapid.IntRange(0, 2).Draw(t, "authz"),
		TelFile: rapid.IntRange(0, 2).Draw(t, "telfile"),
		TelEnv:  rapid.SampledFrom([]string{"", "", "false", "0", "FALSE", "False", "f", "true", "1", "TRUE"}).Draw(t, "telenv"),
		NoFile:  rapid.IntRange(0, 3).Draw(t, "nofile") == 0,
		Extra:   rapid.IntRange(0, 3).Draw(t, "extra"),
	}
}

func tri(v int, def bool) bool {
	switch v {
	case 1:
		return false
	case 2:
		return true
	}
	return def
}

func writeCfg(c cfgCase, dir string) (string, error) {
	y := ""
	if c.Extra&1 != 0 {
		y += "host: 127.0.0.1\n"
	}
	if c.Auth != 0 || c.Authz != 0 {
		y += "tls:\n"
		if c.Auth != 0 {
			y += fmt.Sprintf("  client.auth.enabled: %v\n", c.Auth == 2)
		}
		if c.Authz != 0 {
			y += fmt.Sprintf("  client.authz.enabled: %v\n", c.Authz == 2)
		}
	}
	if c.TelFile != 0 || c.Extra&2 != 0 {
		y += "telemetry:\n"
		if c.TelFile != 0 {
			y += fmt.Sprintf("  enabled: %v\n", c.TelFile == 2)
		}
		if c.Extra&2 != 0 {
			y += "  interval.seconds: 3600\n"
		}
	}
	if y == "" {
		y = "port: 9292\n"
	}
	p := filepath.Join(dir, "liftbridge.yaml")
	return p, os.WriteFile(p, []byte(y), 0o644)
}

func loadCfg(c cfgCase) (*Config, *vfutil.Failure) {
	dir := vfutil.TempDir("cfg")
	defer os.RemoveAll(dir)
	file := ""
	if !c.NoFile {
		var err error
		file, err = writeCfg(c, dir)
		if err != nil {
			return nil, vfutil.Failf("harness/io", "%v", err)
		}
	}
	if c.TelEnv != "" {
		os.Setenv("LIFTBRIDGE_TELEMETRY_ENABLED", c.TelEnv)
		defer os.Unsetenv("LIFTBRIDGE_TELEMETRY_ENABLED")
	} else {
		os.Unsetenv("LIFTBRIDGE_TELEMETRY_ENABLED")
	}
	cfg, err := NewConfig(file)
	if err != nil {
		return nil, vfutil.Failf("harness/config", "NewConfig failed on a valid file: %v", err)
	}
	return cfg, nil
}

func runC15cfg(c cfgCase, o *vfutil.Obs) *vfutil.Failure {
	c.TelEnv = ""
	cfg, f := loadCfg(c)
	if f != nil {
		return f
	}
	wantAuth, wantAuthz := tri(c.Auth, false), tri(c.Authz, false)
	if c.NoFile {
		wantAuth, wantAuthz = false, false
	}
	o.Label(fmt.Sprintf("auth=%d authz=%d", c.Auth, c.Authz))
	if c.Auth != c.Authz && !c.NoFile {
		o.NonTrivial()
	}
	if cfg.TLSClientAuthz != wantAuthz {
		return vfutil.Failf("C15/config/authz-switch-ignored", "tls.client.authz.enabled=%v (auth.enabled=%v) in the file but the server runs with TLSClientAuthz=%v", describeTri(c.Authz), describeTri(c.Auth), cfg.TLSClientAuthz)
	}
	if cfg.TLSClientAuth != wantAuth {
		return vfutil.Failf("C15/config/auth-switch-ignored", "tls.client.auth.enabled=%v in the file but TLSClientAuth=%v", describeTri(c.Auth), cfg.TLSClientAuth)
	}
	return nil
}

func describeTri(v int) string { return []string{"absent", "false", "true"}[v] }

func runC19cfg(c cfgCase, o *vfutil.Obs) *vfutil.Failure {
	cfg, f := loadCfg(c)
	if f != nil {
		return f
	}
	want := true // default
	route := "default"
	if !c.NoFile && c.TelFile != 0 {
		want = c.TelFile == 2
		route = "file"
	}
	switch c.TelEnv {
	case "false", "0", "FALSE", "False", "f":
		want = false
		route = "env"
	case "true", "1", "TRUE":
		want = true
		route = "env"
	}
	o.Label("route:" + route)
	if route == "env" && (c.NoFile || (c.TelFile != 0 && (c.TelFile == 2) != want)) {
		o.NonTrivial()
	}
	if route == "file" && !want {
		o.NonTrivial()
	}
	if cfg.Telemetry.Enabled != want {
		cls := "enabled-although-disabled"
		if want {
			cls = "disabled-although-enabled"
		}
		return vfutil.Failf("C19/config/"+cls+"/"+route, "telemetry.enabled in file: %s, LIFTBRIDGE_TELEMETRY_ENABLED=%q, config file given: %v => effective Telemetry.Enabled=%v, want %v", describeTri(c.TelFile), c.TelEnv, !c.NoFile, cfg.Telemetry.Enabled, want)
	}
	return nil
}

func TestVerifC15cfg(t *testing.T) {
	vfutil.Run(t, vfutil.Spec[cfgCase]{ID: "C15", Gen: genCfg, Run: runC15cfg})
}

func TestVerifC19cfg(t *testing.T) {
	vfutil.Run(t, vfutil.Spec[cfgCase]{ID: "C19", Gen: genCfg, Run: runC19cfg})
}
