//go:build verif

package server

import (
	"bytes"
	"context"
	"fmt"
	"os"
	"testing"
	"time"

	client "github.com/liftbridge-io/liftbridge-api/v2/go"
	"google.golang.org/grpc/codes"
	"google.golang.org/grpc/status"

	"github.com/liftbridge-io/liftbridge/server/commitlog"
	proto "github.com/liftbridge-io/liftbridge/server/protocol"
	"github.com/liftbridge-io/liftbridge/server/vfutil"
	"pgregory.net/rapid"
)

// C10 (L0): log shape x subscription request through the real
// partition.Subscribe on a bare server.

type c10Msg struct {
	K  int   `json:"k"`  // -1 no key, 1..3 key
	DT int64 `json:"dt"` // timestamp delta (>= 0)
	V  int   `json:"v"`
}

type c10Case struct {
	MaxSeg   int64    `json:"maxseg"`
	Msgs     []c10Msg `json:"msgs"`
	HWBack   int      `json:"hwback"`   // hw = newest - hwback (>= -1)
	Compact  bool     `json:"compact"`  // run a compacting clean before subscribing
	RetMsgs  int      `json:"retmsgs"`  // >0: message retention limit applied by the same clean
	Readonly bool     `json:"readonly"` // partition read-only at subscribe time
	StartPos int      `json:"startpos"` // client.StartPosition
	StartSel int      `json:"startsel"`
	StopPos  int      `json:"stoppos"` // client.StopPosition
	StopSel  int      `json:"stopsel"`
	Reverse  bool     `json:"reverse"`
	After    int      `json:"after"` // messages appended and committed after the subscription started
}

func genC10(t *rapid.T) c10Case {
	c := c10Case{
		MaxSeg:   rapid.SampledFrom([]int64{1, 150, 300, 1000, 1 << 20}).Draw(t, "maxseg"),
		HWBack:   rapid.SampledFrom([]int{0, 0, 0, 1, 2, 5, 1000}).Draw(t, "hwback"),
		Compact:  rapid.IntRange(0, 2).Draw(t, "compact") == 0,
		Readonly: rapid.IntRange(0, 4).Draw(t, "readonly") == 0,
		StartPos: rapid.IntRange(0, 4).Draw(t, "startpos"),
		StartSel: rapid.IntRange(0, 1000).Draw(t, "startsel"),
		StopPos:  rapid.SampledFrom([]int{0, 0, 1, 1, 2, 3}).Draw(t, "stoppos"),
		StopSel:  rapid.IntRange(0, 1000).Draw(t, "stopsel"),
		Reverse:  rapid.IntRange(0, 3).Draw(t, "reverse") == 0,
	}
	if rapid.IntRange(0, 3).Draw(t, "ret") == 0 {
		c.RetMsgs = rapid.IntRange(1, 12).Draw(t, "retmsgs")
	}
	n := rapid.IntRange(0, 24).Draw(t, "nmsgs")
	for i := 0; i < n; i++ {
		c.Msgs = append(c.Msgs, c10Msg{
			K:  rapid.SampledFrom([]int{-1, 1, 1, 2, 2, 3}).Draw(t, "k"),
			DT: int64(rapid.SampledFrom([]int{0, 1, 1, 10, 10, 100}).Draw(t, "dt")),
			V:  rapid.SampledFrom([]int{10, 40, 100}).Draw(t, "v"),
		})
	}
	if c.StopPos == 0 && !c.Readonly && rapid.Bool().Draw(t, "after?") {
		c.After = rapid.IntRange(1, 4).Draw(t, "after")
	}
	return c
}

type c10Stored struct {
	Off int64
	TS  int64
	Key []byte
	Val []byte
}

func i64(v int64) *proto.NullableInt64 { return &proto.NullableInt64{Value: v} }

// vfPartition creates a partition on a bare server that is not one of its replicas.
func vfPartition(s *Server, stream string, id int32, cfg *proto.StreamConfig) (*partition, error) {
	return s.newPartition(&proto.Partition{Subject: stream, Stream: stream, Id: id, Replicas: []string{"x"}, Isr: []string{"x"}, Leader: "x", LeaderEpoch: 1, Epoch: 1}, false, cfg)
}

func c10ReadAll(l commitlog.CommitLog) ([]c10Stored, error) {
	var out []c10Stored
	if l.NewestOffset() < 0 || l.OldestOffset() < 0 {
		return nil, nil
	}
	r, err := l.NewReader(l.OldestOffset(), true)
	if err != nil {
		return nil, err
	}
	ctx, cancel := context.WithCancel(context.Background())
	cancel()
	hb := make([]byte, 28)
	for {
		m, off, ts, _, err := r.ReadMessage(ctx, hb)
		if err != nil {
			return out, nil
		}
		out = append(out, c10Stored{Off: off, TS: ts, Key: append([]byte(nil), m.Key()...), Val: append([]byte(nil), m.Value()...)})
	}
}

type c10Expect struct {
	msgs      []c10Stored
	end       string // "blocks" | "ends" | "invalid" | "any-error"
	endCode   codes.Code
	startCls  string
	stopCls   string
	gapStart  bool
	gapStop   bool
	effStart  int64
	stop      int64
	hasStop   bool
	startOrig int64
}

func c10Expected(c c10Case, S []c10Stored, hw, newest, oldest int64, readonly bool, startTS, stopTS int64, startOff, stopOff int64) c10Expect {
	var e c10Expect
	has := func(off int64) bool {
		for _, m := range S {
			if m.Off == off {
				return true
			}
		}
		return false
	}
	// ---- start position
	var start int64
	switch client.StartPosition(c.StartPos) {
	case client.StartPosition_OFFSET:
		start = startOff
		e.startCls = "offset"
	case client.StartPosition_EARLIEST:
		start = oldest
		e.startCls = "earliest"
	case client.StartPosition_LATEST:
		start = newest
		e.startCls = "latest"
	case client.StartPosition_NEW_ONLY:
		start = newest + 1
		e.startCls = "new-only"
	case client.StartPosition_TIMESTAMP:
		e.startCls = "timestamp"
		start = newest + 1
		for _, m := range S {
			if m.TS >= startTS {
				start = m.Off
				break
			}
		}
	}
	if start < 0 {
		start = 0
	}
	e.startOrig = start
	if start >= 0 && start <= newest && !has(start) {
		e.gapStart = true
	}
	// ---- stop position
	e.hasStop = true
	switch client.StopPosition(c.StopPos) {
	case client.StopPosition_STOP_ON_CANCEL:
		e.stopCls = "on-cancel"
		e.hasStop = false
		if readonly && !c.Reverse {
			// read-only partitions end at the end of the log
			e.hasStop = true
			e.stop = newest
			e.stopCls = "on-cancel-readonly"
			if newest == -1 {
				e.end, e.endCode = "ends", codes.ResourceExhausted
				return e
			}
		}
	case client.StopPosition_STOP_OFFSET:
		e.stop = stopOff
		e.stopCls = "offset"
	case client.StopPosition_STOP_LATEST:
		e.stopCls = "latest"
		e.stop = newest
		if newest == -1 {
			e.end, e.endCode = "ends", codes.ResourceExhausted // "Stream is empty"
			return e
		}
	case client.StopPosition_STOP_TIMESTAMP:
		e.stopCls = "timestamp"
		if len(S) == 0 || stopTS < S[0].TS {
			// before the beginning of the log (or empty): nothing to deliver, some error
			e.end = "any-error"
			return e
		}
		for _, m := range S {
			if m.TS <= stopTS {
				e.stop = m.Off
			}
		}
	}
	if e.hasStop && e.stop >= 0 && e.stop <= newest && !has(e.stop) {
		e.gapStop = true
	}
	e.effStart = start
	if !c.Reverse {
		if e.hasStop && e.stop < start {
			e.end, e.endCode = "invalid", codes.InvalidArgument
			return e
		}
		// a start beyond the HW waits for the next committed message (HW+1)
		if start > hw {
			e.effStart = hw + 1
		}
		lastInRange := int64(-1)
		for _, m := range S {
			if m.Off >= e.effStart && (!e.hasStop || m.Off <= e.stop) {
				lastInRange = m.Off
				if m.Off <= hw {
					e.msgs = append(e.msgs, m)
				}
			}
		}
		switch {
		case !e.hasStop:
			e.end = "blocks"
		case lastInRange >= 0 && lastInRange <= hw && (e.stop <= newest):
			// the whole finite range is committed: it must end
			e.end, e.endCode = "ends", codes.ResourceExhausted
		case e.stop <= hw && lastInRange == -1:
			// empty finite range entirely below the HW (everything in it was
			// removed): ending at once and waiting for the next committed
			// message (which is past the stop offset) are both accepted
			e.end, e.endCode = "ends-or-blocks", codes.ResourceExhausted
		default:
			e.end = "blocks" // part of the range is not committed yet
		}
		if (e.end == "blocks" || e.end == "ends-or-blocks") && readonly && hw == newest {
			// nothing more can be committed to a read-only partition: a
			// subscription that reaches its end is told so
			e.end, e.endCode = "ends", codes.ResourceExhausted
		}
		return e
	}
	// ---- reverse: from min(start, hw) downwards to the stop offset (inclusive) or the beginning
	top := start
	if top > hw {
		top = hw
	}
	for i := len(S) - 1; i >= 0; i-- {
		m := S[i]
		if m.Off <= top && (!e.hasStop || m.Off >= e.stop) {
			e.msgs = append(e.msgs, m)
		}
	}
	e.end = "any-error" // a reverse subscription is finite: it must end, the status is not documented
	return e
}

func runC10(c c10Case, o *vfutil.Obs) *vfutil.Failure {
	dir := vfutil.TempDir("c10")
	defer os.RemoveAll(dir)
	s := vfBare(dir, "me")
	cfg := &proto.StreamConfig{SegmentMaxBytes: i64(c.MaxSeg), CleanerInterval: i64(3600 * 1000)}
	if c.Compact {
		cfg.CompactEnabled = &proto.NullableBool{Value: true}
	}
	if c.RetMsgs > 0 {
		cfg.RetentionMaxMessages = i64(int64(c.RetMsgs))
	}
	cfg.RetentionMaxAge = i64(0)
	cfg.SegmentMaxAge = i64(0)
	p, err := vfPartition(s, "foo", 0, cfg)
	if err != nil {
		return vfutil.Failf("harness/partition", "%v", err)
	}
	defer p.Close()
	ts := int64(1000)
	for i, m := range c.Msgs {
		ts += m.DT
		var key []byte
		if m.K > 0 {
			key = []byte{byte('a' + m.K)}
		}
		val := bytes.Repeat([]byte{byte('A' + i%26)}, m.V)
		copy(val, fmt.Sprintf("<%d>", i))
		if _, err := p.log.Append([]*commitlog.Message{{MagicByte: 1, Key: key, Value: val, Timestamp: ts, LeaderEpoch: 1, Headers: map[string][]byte{"subject": []byte("foo"), "reply": []byte("")}, Offset: -1}}); err != nil {
			return vfutil.Failf("harness/append", "%v", err)
		}
	}
	newest := p.log.NewestOffset()
	hw := newest - int64(c.HWBack)
	if hw < -1 {
		hw = -1
	}
	if hw >= 0 {
		p.log.SetHighWatermark(hw)
	}
	if c.Compact || c.RetMsgs > 0 {
		if err := p.log.Clean(); err != nil {
			return vfutil.Failf("C10/clean-error", "%v", err)
		}
	}
	S, err := c10ReadAll(p.log)
	if err != nil {
		return vfutil.Failf("harness/readback", "%v", err)
	}
	oldest := p.log.OldestOffset()
	sparse := false
	for i := 1; i < len(S); i++ {
		if S[i].Off != S[i-1].Off+1 {
			sparse = true
		}
	}
	trimmed := len(S) > 0 && S[0].Off > 0
	shape := "dense"
	switch {
	case len(c.Msgs) == 0:
		shape = "empty"
	case sparse && trimmed:
		shape = "sparse+trimmed"
	case sparse:
		shape = "sparse"
	case trimmed:
		shape = "trimmed"
	}
	if hw < newest {
		shape += "/hw-below-end"
	}
	if c.Readonly {
		p.SetReadonly(true)
		shape += "/readonly"
	}
	o.Label("shape:" + shape)

	// resolve request arguments against the shape
	req := &client.SubscribeRequest{Stream: "foo", Partition: 0, StartPosition: client.StartPosition(c.StartPos), StopPosition: client.StopPosition(c.StopPos), Reverse: c.Reverse}
	span := newest + 6
	req.StartOffset = int64(c.StartSel)%span - 2
	req.StopOffset = int64(c.StopSel) % span // never negative: -1 is the "no stop offset" sentinel
	pickTS := func(sel int) int64 {
		// message timestamps, midpoints, before the first, after the last
		var cands []int64
		for i, m := range S {
			cands = append(cands, m.TS)
			if i > 0 && S[i-1].TS+1 < m.TS {
				cands = append(cands, (S[i-1].TS+m.TS)/2)
			}
		}
		cands = append(cands, 1, ts+1000)
		return cands[sel%len(cands)]
	}
	req.StartTimestamp = pickTS(c.StartSel)
	req.StopTimestamp = pickTS(c.StopSel)

	exp := c10Expected(c, S, hw, newest, oldest, c.Readonly, req.StartTimestamp, req.StopTimestamp, req.StartOffset, req.StopOffset)
	dir2 := "forward"
	if c.Reverse {
		dir2 = "reverse"
	}
	o.Label("request:" + exp.startCls + "->" + exp.stopCls + "/" + dir2)
	if (sparse || trimmed || hw < newest) && (exp.gapStart || exp.gapStop || c.Reverse || c.StartPos == int(client.StartPosition_TIMESTAMP) || c.StopPos == int(client.StopPosition_STOP_TIMESTAMP)) {
		o.NonTrivial()
	}
	if exp.gapStart {
		o.Label("start-on-removed-offset")
	}
	if exp.gapStop {
		o.Label("stop-on-removed-offset")
	}

	ctx, cancel := context.WithCancel(context.Background())
	defer cancel()
	sub, st := p.Subscribe(ctx, req)
	desc := fmt.Sprintf("log offsets %v hw %d newest %d readonly %v; request start=%s(off %d, ts %d) stop=%s(off %d, ts %d) reverse=%v", c10Offsets(S), hw, newest, c.Readonly,
		client.StartPosition(c.StartPos), req.StartOffset, req.StartTimestamp, client.StopPosition(c.StopPos), req.StopOffset, req.StopTimestamp, c.Reverse)
	if c.StartPos == int(client.StartPosition_TIMESTAMP) {
		o2, e2 := p.log.EarliestOffsetAfterTimestamp(req.StartTimestamp)
		desc += fmt.Sprintf(" [EarliestOffsetAfterTimestamp=%d,%v timestamps %v]", o2, e2, c10TS(S))
	}
	if c.StopPos == int(client.StopPosition_STOP_TIMESTAMP) {
		o2, e2 := p.log.LatestOffsetBeforeTimestamp(req.StopTimestamp)
		desc += fmt.Sprintf(" [LatestOffsetBeforeTimestamp=%d,%v timestamps %v]", o2, e2, c10TS(S))
	}
	if st != nil {
		switch exp.end {
		case "invalid":
			if st.Code() != codes.InvalidArgument {
				return vfutil.Failf("C10/wrong-status/invalid-range", "%s: Subscribe returned %v, want InvalidArgument", desc, st.Err())
			}
			return nil
		case "any-error":
			if len(exp.msgs) == 0 {
				return nil
			}
		case "ends":
			if len(exp.msgs) == 0 && (st.Code() == exp.endCode || c.Reverse) {
				return nil
			}
		}
		cls := "forward"
		if c.Reverse {
			cls = "reverse"
		}
		return vfutil.Failf("C10/subscribe-refused/"+cls, "%s: Subscribe returned %v but %d message(s) %v were expected (end: %s)", desc, st.Err(), len(exp.msgs), c10Offsets(exp.msgs), exp.end)
	}
	defer sub.Close()
	if exp.end == "invalid" {
		return vfutil.Failf("C10/invalid-range-accepted", "%s: stop before start was accepted", desc)
	}

	// optionally commit more messages after the subscription started
	want := append([]c10Stored{}, exp.msgs...)
	if c.After > 0 && !c.Reverse {
		for i := 0; i < c.After; i++ {
			ts += 7
			val := []byte(fmt.Sprintf("<after-%d>", i))
			offs, err := p.log.Append([]*commitlog.Message{{MagicByte: 1, Value: val, Timestamp: ts, LeaderEpoch: 1, Headers: map[string][]byte{}, Offset: -1}})
			if err != nil {
				return vfutil.Failf("harness/append", "%v", err)
			}
			want = append(want, c10Stored{Off: offs[0], TS: ts, Val: val})
		}
		// everything (old uncommitted tail included) is committed now
		p.log.SetHighWatermark(p.log.NewestOffset())
		want = want[:0]
		all, _ := c10ReadAll(p.log)
		for _, m := range all {
			if m.Off >= exp.effStart {
				want = append(want, m)
			}
		}
		o.Label("committed-after-subscribe")
	}

	var got []*client.Message
	var end *status.Status
	collect := func(bound time.Duration) {
		deadline := time.After(bound)
		for end == nil {
			wait := deadline
			if len(got) >= len(want) {
				// everything expected has arrived: a short grace period for
				// anything that should not arrive / the end status
				wait = time.After(15 * time.Millisecond)
				if exp.end == "ends" || exp.end == "any-error" {
					wait = deadline
				}
			}
			select {
			case m := <-sub.Messages():
				got = append(got, m)
				if len(got) > len(want)+3 {
					return
				}
			case st := <-sub.Errors():
				end = st
			case <-wait:
				return
			}
		}
	}
	collect(2 * time.Second)
	needMore := len(got) < len(want) || ((exp.end == "ends" || exp.end == "any-error") && end == nil)
	if needMore {
		collect(20 * time.Second) // bounded-liveness escalation
	}
	for i := 0; i < len(got) && i < len(want); i++ {
		g, w := got[i], want[i]
		if g.Offset != w.Off {
			cls := "forward"
			if c.Reverse {
				cls = "reverse"
			}
			return vfutil.Failf("C10/delivered-wrong-offset/"+cls, "%s: delivered offsets %v, want %v", desc, c10GotOffsets(got), c10Offsets(want))
		}
		if g.Timestamp != w.TS || !bytes.Equal(g.Value, w.Val) || !bytes.Equal(g.Key, w.Key) {
			return vfutil.Failf("C10/delivered-wrong-content", "%s: offset %d delivered with ts %d key %q value %q, stored ts %d key %q value %q", desc, g.Offset, g.Timestamp, g.Key, g.Value, w.TS, w.Key, w.Val)
		}
	}
	if len(got) > len(want) {
		cls := "forward"
		if c.Reverse {
			cls = "reverse"
		}
		sub := "beyond-stop"
		if !exp.hasStop {
			sub = "uncommitted-or-unexpected"
		}
		return vfutil.Failf("C10/delivered-outside-range/"+cls+"/"+sub, "%s: delivered offsets %v, want exactly %v", desc, c10GotOffsets(got), c10Offsets(want))
	}
	if len(got) < len(want) {
		cls := "forward"
		if c.Reverse {
			cls = "reverse"
		}
		return vfutil.Failf("C10/not-delivered/"+cls+"/bounded-liveness(20s)", "%s: delivered offsets %v (end status %v), want %v", desc, c10GotOffsets(got), end, c10Offsets(want))
	}
	switch exp.end {
	case "ends":
		if end == nil {
			cls := "stop-offset-present"
			if exp.gapStop {
				cls = "stop-offset-removed"
			}
			return vfutil.Failf("C10/finite-range-does-not-end/"+cls+"/bounded-liveness(20s)", "%s: all %d expected messages delivered but the subscription did not end", desc, len(want))
		}
		if end.Code() != exp.endCode {
			return vfutil.Failf("C10/wrong-status/end", "%s: ended with %v, want code %s", desc, end.Err(), exp.endCode)
		}
	case "any-error":
		if end == nil {
			return vfutil.Failf("C10/finite-range-does-not-end/reverse/bounded-liveness(20s)", "%s: all %d expected messages delivered but the subscription did not end", desc, len(want))
		}
	case "ends-or-blocks":
		if end != nil && end.Code() != exp.endCode {
			return vfutil.Failf("C10/wrong-status/end", "%s: ended with %v, want code %s", desc, end.Err(), exp.endCode)
		}
	case "blocks":
		if end != nil {
			return vfutil.Failf("C10/ended-instead-of-waiting", "%s: the subscription ended with %v although it should keep waiting", desc, end.Err())
		}
	}
	return nil
}

func c10Offsets(ms []c10Stored) []int64 {
	r := make([]int64, len(ms))
	for i, m := range ms {
		r[i] = m.Off
	}
	return r
}

func c10TS(ms []c10Stored) []int64 {
	r := make([]int64, len(ms))
	for i, m := range ms {
		r[i] = m.TS
	}
	return r
}

func c10GotOffsets(ms []*client.Message) []int64 {
	r := make([]int64, len(ms))
	for i, m := range ms {
		r[i] = m.Offset
	}
	return r
}

func TestVerifC10(t *testing.T) {
	vfutil.Run(t, vfutil.Spec[c10Case]{ID: "C10", Gen: genC10, Run: runC10, Journal: true})
}
