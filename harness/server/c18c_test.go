//go:build verif

package server

import (
	"fmt"
	"testing"
	"time"

	client "github.com/liftbridge-io/liftbridge-api/v2/go"

	"github.com/liftbridge-io/liftbridge/server/vfutil"
	"pgregory.net/rapid"
)

// C18c: the activity stream across controller failovers between brokers, on a
// started 3-server cluster (real Raft, real failure detectors).

type c18cOp struct {
	Op string `json:"op"` // create | delete | pause | readonly | join | leave | failover | revive
	S  int    `json:"s,omitempty"`
	B  bool   `json:"b,omitempty"`
	M  int    `json:"m,omitempty"`
}

type c18cCase struct {
	Ops []c18cOp `json:"ops"`
}

func genC18c(t *rapid.T) c18cCase {
	var c c18cCase
	c.Ops = append(c.Ops, c18cOp{Op: "create", S: 0}, c18cOp{Op: "create", S: 1, M: 1})
	n := rapid.IntRange(4, 12).Draw(t, "nops")
	failovers := 0
	for i := 0; i < n; i++ {
		kinds := []string{"create", "delete", "pause", "readonly", "join", "leave"}
		if failovers < 2 {
			kinds = append(kinds, "failover", "failover")
		}
		op := c18cOp{Op: rapid.SampledFrom(kinds).Draw(t, "op"), S: rapid.IntRange(0, 2).Draw(t, "s"), B: rapid.Bool().Draw(t, "b"), M: rapid.IntRange(0, 2).Draw(t, "m")}
		c.Ops = append(c.Ops, op)
		if op.Op == "failover" {
			failovers++
			// operations while one server is down, then it comes back
			k := rapid.IntRange(0, 2).Draw(t, "during")
			for j := 0; j < k; j++ {
				c.Ops = append(c.Ops, c18cOp{Op: rapid.SampledFrom([]string{"create", "delete", "pause", "readonly", "join"}).Draw(t, "dop"), S: rapid.IntRange(0, 2).Draw(t, "ds"), B: rapid.Bool().Draw(t, "db"), M: rapid.IntRange(0, 2).Draw(t, "dm")})
			}
			c.Ops = append(c.Ops, c18cOp{Op: "revive"})
		}
	}
	return c
}

func runC18c(c c18cCase, o *vfutil.Obs) *vfutil.Failure {
	cl, err := newVFCluster("c18c", []string{"a", "b", "c"}, func(cfg *Config) {
		cfg.ActivityStream.Enabled = true
		cfg.ActivityStream.PublishTimeout = 2 * time.Second
		cfg.ActivityStream.PublishAckPolicy = client.AckPolicy_ALL
		cfg.Clustering.ReplicaMaxLeaderTimeout = time.Second
		cfg.Clustering.ReplicaMaxLagTime = time.Second
		cfg.Clustering.ReplicaFetchTimeout = 200 * time.Millisecond
	})
	if err != nil {
		return vfutil.Failf("harness/start", "%v", err)
	}
	defer cl.close()
	streams := map[string]bool{}
	members := map[string]bool{}
	var hist []string
	down := ""
	failovers := 0
	for _, op := range c.Ops {
		name := fmt.Sprintf("as%d", op.S)
		if op.Op == "failover" {
			if down != "" {
				continue
			}
			_, lid, err := cl.leader(30 * time.Second)
			if err != nil {
				return vfutil.Failf("harness/leader", "%v; history %v", err, hist)
			}
			cl.stop(lid)
			down = lid
			if _, nid, err := cl.leader(30 * time.Second); err != nil {
				return vfutil.Failf("harness/leader", "after stopping %s: %v; history %v", lid, err, hist)
			} else {
				hist = append(hist, fmt.Sprintf("failover(%s->%s)", lid, nid))
			}
			failovers++
			continue
		}
		if op.Op == "revive" {
			if down == "" {
				continue
			}
			if err := cl.start(down, false); err != nil {
				return vfutil.Failf("harness/revive", "%v", err)
			}
			hist = append(hist, "revive("+down+")")
			down = ""
			continue
		}
		l, _, err := cl.leader(30 * time.Second)
		if err != nil {
			return vfutil.Failf("harness/leader", "%v; history %v", err, hist)
		}
		a := l.api
		ctx, cancel := ctxFor("", 20*time.Second)
		switch op.Op {
		case "create":
			if streams[name] {
				cancel()
				continue
			}
			_, err = a.CreateStream(ctx, &client.CreateStreamRequest{Name: name, Subject: name, Partitions: int32(1 + op.M%2), ReplicationFactor: 1})
			streams[name] = err == nil
		case "delete":
			if !streams[name] {
				cancel()
				continue
			}
			_, err = a.DeleteStream(ctx, &client.DeleteStreamRequest{Name: name})
			if err == nil {
				delete(streams, name)
			}
		case "pause":
			if !streams[name] {
				cancel()
				continue
			}
			_, err = a.PauseStream(ctx, &client.PauseStreamRequest{Name: name, ResumeAll: op.B})
		case "readonly":
			if !streams[name] {
				cancel()
				continue
			}
			_, err = a.SetStreamReadonly(ctx, &client.SetStreamReadonlyRequest{Name: name, Readonly: op.B})
		case "join":
			if !streams[name] || members[fmt.Sprintf("m%d", op.M)] {
				cancel()
				continue
			}
			_, err = a.JoinConsumerGroup(ctx, &client.JoinConsumerGroupRequest{GroupId: "cg", ConsumerId: fmt.Sprintf("m%d", op.M), Streams: []string{name}})
			members[fmt.Sprintf("m%d", op.M)] = err == nil
		case "leave":
			if !members[fmt.Sprintf("m%d", op.M)] {
				cancel()
				continue
			}
			_, err = a.LeaveConsumerGroup(ctx, &client.LeaveConsumerGroupRequest{GroupId: "cg", ConsumerId: fmt.Sprintf("m%d", op.M)})
			if err == nil {
				delete(members, fmt.Sprintf("m%d", op.M))
			}
		}
		cancel()
		hist = append(hist, fmt.Sprintf("%s(%s)%s", op.Op, name, errMark(err)))
	}
	controller := func() *Server {
		l, _, err := cl.leader(30 * time.Second)
		if err != nil {
			return nil
		}
		return l
	}
	if controller() == nil {
		return vfutil.Failf("harness/leader", "no metadata leader at the end; history %v", hist)
	}
	activityLeader := func() *Server {
		deadline := time.Now().Add(30 * time.Second)
		for time.Now().Before(deadline) {
			for _, id := range cl.ids {
				if s := cl.srv[id]; s != nil {
					if p := s.metadata.GetPartition(activityStream, 0); p != nil && p.IsLeader() {
						return s
					}
				}
			}
			time.Sleep(5 * time.Millisecond)
		}
		return nil
	}
	if f := c18Judge(hist, controller, activityLeader, 90*time.Second, o); f != nil {
		return f
	}
	if failovers > 0 {
		o.NonTrivial()
		o.Label(fmt.Sprintf("controller-failovers:%d", failovers))
	}
	return nil
}

func TestVerifC18c(t *testing.T) {
	vfutil.Run(t, vfutil.Spec[c18cCase]{ID: "C18", Gen: genC18c, Run: runC18c, Journal: true})
}
