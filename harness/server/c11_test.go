//go:build verif

package server

import (
	"fmt"
	"sync"
	"testing"
	"time"

	client "github.com/liftbridge-io/liftbridge-api/v2/go"

	proto "github.com/liftbridge-io/liftbridge/server/protocol"
	"github.com/liftbridge-io/liftbridge/server/vfutil"
	"pgregory.net/rapid"
)

// C11: a cursor fetch returns the last cursor stored.

type c11Op struct {
	Op  string `json:"op"` // set | fetch | clean | purge | pause | cache | restart | burst
	Key int    `json:"key,omitempty"`
	Val int64  `json:"val,omitempty"`
	N   int    `json:"n,omitempty"`
}

type c11Case struct {
	Keys int     `json:"keys"` // number of distinct cursor keys in play
	// cursor ids and stream names that contain commas, chosen such that two
	// different (cursor id, stream) pairs differ only in where the comma falls
	Commas bool `json:"commas,omitempty"`
	Ops  []c11Op `json:"ops"`
}

func genC11(t *rapid.T) c11Case {
	c := c11Case{Keys: rapid.SampledFrom([]int{3, 3, 8, 40}).Draw(t, "keys"), Commas: rapid.IntRange(0, 7).Draw(t, "commas") == 0}
	if vfutil.Thorough() && rapid.IntRange(0, 9).Draw(t, "many") == 0 {
		c.Keys = 600 // more than the 512-entry cache
	}
	n := rapid.IntRange(4, 40).Draw(t, "nops")
	for i := 0; i < n; i++ {
		op := c11Op{Op: rapid.SampledFrom([]string{"set", "set", "set", "set", "fetch", "fetch", "fetch", "clean", "purge", "pause", "cache", "restart", "burst", "race", "race"}).Draw(t, "op")}
		op.Key = rapid.IntRange(0, c.Keys-1).Draw(t, "key")
		op.Val = int64(rapid.IntRange(0, 1000000).Draw(t, "val"))
		op.N = rapid.IntRange(1, 12).Draw(t, "n")
		if op.Op == "restart" && rapid.IntRange(0, 2).Draw(t, "really") != 0 {
			op.Op = "fetch" // restarts are expensive: one in three
		}
		c.Ops = append(c.Ops, op)
	}
	return c
}

var (
	c11Once sync.Once
	c11L    *vfL3
	c11Err  error
	c11Gen  int
)

func c11Setup() (*vfL3, error) {
	c11Once.Do(func() {
		c11L, c11Err = newVFL3("c11", func(c *Config) {
			c.CursorsStream.Partitions = 2
			c.CursorsStream.AutoPauseTime = 0
			c.Streams.SegmentMaxBytes = 300 // a few cursor messages per segment
			c.Streams.SegmentMaxAge = 0
		})
	})
	return c11L, c11Err
}

func c11ForceClean(s *Server) error {
	st := s.metadata.GetStream(cursorsStream)
	if st == nil {
		return fmt.Errorf("no cursors stream")
	}
	for _, p := range st.GetPartitions() {
		if p.IsPaused() {
			continue
		}
		if err := p.log.Clean(); err != nil {
			return err
		}
	}
	return nil
}

func runC11(c c11Case, o *vfutil.Obs) *vfutil.Failure {
	l, err := c11Setup()
	if err != nil {
		return vfutil.Failf("harness/setup", "%v", err)
	}
	c11Gen++
	gen := c11Gen
	model := map[string]int64{}
	commas := c.Commas
	if commas && vfutil.IsExcluded("c11-cursor-key-collision") {
		// open finding: the key under which a cursor is stored joins cursor id,
		// stream and partition with commas, unescaped; constructed away so that
		// the search goes on
		o.Excluded("c11-cursor-key-collision")
		commas = false
	}
	keyOf := func(k int) (id, stream string, part int32) {
		part = int32((k/4)%4) + 4*int32(k/16)
		if commas {
			o.Label("names-with-commas")
			if k%2 == 0 {
				return fmt.Sprintf("c%d,a", gen), "b" + fmt.Sprint((k/2)%2), part
			}
			return fmt.Sprintf("c%d", gen), "a,b" + fmt.Sprint((k/2)%2), part
		}
		return fmt.Sprintf("cur-%d-%d", gen, k%2), "stream" + fmt.Sprint((k/2)%2), part
	}
	var hist []string
	fetchErrs, fetches := 0, 0
	sawLogFetch := false
	cleanedAfterSet := false
	setsSinceClean := 0
	doSet := func(k int, v int64) {
		id, st, p := keyOf(k)
		ctx, cancel := ctxFor("", 10*time.Second)
		_, err := l.s.api.SetCursor(ctx, &client.SetCursorRequest{Stream: st, Partition: p, CursorId: id, Offset: v})
		cancel()
		if err == nil {
			model[fmt.Sprintf("%q|%q|%d", id, st, p)] = v
			setsSinceClean++
		}
		hist = append(hist, fmt.Sprintf("set(k%d=%d)%s", k, v, errMark(err)))
	}
	doFetch := func(k int) *vfutil.Failure {
		id, st, p := keyOf(k)
		ctx, cancel := ctxFor("", 10*time.Second)
		resp, err := l.s.api.FetchCursor(ctx, &client.FetchCursorRequest{Stream: st, Partition: p, CursorId: id})
		cancel()
		fetches++
		if err != nil {
			fetchErrs++
			hist = append(hist, fmt.Sprintf("fetch(k%d)=err", k))
			return nil // the statement is about the value returned
		}
		want, ok := model[fmt.Sprintf("%q|%q|%d", id, st, p)]
		if !ok {
			want = -1
		}
		hist = append(hist, fmt.Sprintf("fetch(k%d)=%d", k, resp.Offset))
		if resp.Offset != want {
			cls := "stale-value"
			if !ok {
				cls = "value-for-unset-cursor"
			} else if resp.Offset == -1 {
				cls = "lost"
			}
			return vfutil.Failf("C11/wrong-cursor/"+cls, "FetchCursor(%s,%s,%d) returned %d, the last successful SetCursor stored %d (set=%v); history %v", id, st, p, resp.Offset, want, ok, tailS(hist, 40))
		}
		return nil
	}
	cacheOff, pausedOnce := false, false
	defer func() { l.s.cursors.disableCache = false }()
	for _, op := range c.Ops {
		switch op.Op {
		case "set":
			doSet(op.Key%c.Keys, op.Val)
		case "burst": // several keys at once, rolls segments
			for i := 0; i < op.N; i++ {
				doSet((op.Key+i)%c.Keys, op.Val+int64(i))
			}
		case "race":
			// concurrent SetCursor calls for one cursor: whichever was stored last
			// in the cursors partition is what FetchCursor must return, through the
			// cache and through the log alike
			k := op.Key % c.Keys
			id, st, p := keyOf(k)
			n := 2 + op.N%3
			var wg sync.WaitGroup
			errs := make([]error, n)
			// with the cursor evicted from the cache (what the LRU does under
			// many keys), concurrent FetchCursor calls fill the cache from the log
			// while the SetCursor calls store and cache new values
			if op.Val%2 == 0 && !cacheOff {
				l.s.cursors.cache.Remove(string(l.s.cursors.getCursorKey(id, st, p)))
				o.Label("concurrent-fetches-on-a-cold-cache")
				for i := 0; i < 2; i++ {
					wg.Add(1)
					go func(i int) {
						defer wg.Done()
						if i == 1 {
							time.Sleep(300 * time.Microsecond)
						}
						ctx, cancel := ctxFor("", 10*time.Second)
						l.s.api.FetchCursor(ctx, &client.FetchCursorRequest{Stream: st, Partition: p, CursorId: id})
						cancel()
					}(i)
				}
			}
			for i := 0; i < n; i++ {
				wg.Add(1)
				go func(i int) {
					defer wg.Done()
					ctx, cancel := ctxFor("", 10*time.Second)
					_, errs[i] = l.s.api.SetCursor(ctx, &client.SetCursorRequest{Stream: st, Partition: p, CursorId: id, Offset: op.Val + int64(i)})
					cancel()
				}(i)
			}
			wg.Wait()
			fetchBoth := func(off bool) (int64, error) {
				l.s.cursors.disableCache = off
				ctx, cancel := ctxFor("", 10*time.Second)
				defer cancel()
				resp, err := l.s.api.FetchCursor(ctx, &client.FetchCursorRequest{Stream: st, Partition: p, CursorId: id})
				if err != nil {
					return 0, err
				}
				return resp.Offset, nil
			}
			viaCache, err1 := fetchBoth(false)
			viaLog, err2 := fetchBoth(true)
			l.s.cursors.disableCache = cacheOff
			hist = append(hist, fmt.Sprintf("race(k%d x%d)=cache:%d,log:%d", k, n, viaCache, viaLog))
			o.Label("concurrent-sets")
			if err1 == nil && err2 == nil {
				if viaCache != viaLog {
					return vfutil.Failf("C11/wrong-cursor/cache-disagrees-with-log", "after %d concurrent SetCursor calls for (%s,%s,%d) FetchCursor returns %d from the cache but the last cursor stored in the cursors partition is %d; history %v", n, id, st, p, viaCache, viaLog, tailS(hist, 40))
				}
				ok := false
				for i := 0; i < n; i++ {
					if errs[i] == nil && viaLog == op.Val+int64(i) {
						ok = true
					}
				}
				allFailed := true
				for i := 0; i < n; i++ {
					if errs[i] == nil {
						allFailed = false
					}
				}
				if !ok && !allFailed {
					return vfutil.Failf("C11/wrong-cursor/stale-value", "after concurrent SetCursor calls with offsets %d..%d FetchCursor returns %d; history %v", op.Val, op.Val+int64(n)-1, viaLog, tailS(hist, 40))
				}
				if !allFailed {
					model[fmt.Sprintf("%q|%q|%d", id, st, p)] = viaLog
					setsSinceClean++
				}
			}
		case "fetch":
			if cacheOff || len(hist) > 0 {
				sawLogFetch = sawLogFetch || cacheOff
			}
			if f := doFetch(op.Key % c.Keys); f != nil {
				return f
			}
		case "clean":
			if err := c11ForceClean(l.s); err != nil {
				return vfutil.Failf("C11/clean-error", "%v", err)
			}
			if setsSinceClean > 0 {
				cleanedAfterSet = true
			}
			setsSinceClean = 0
			hist = append(hist, "clean")
			o.Label("clean")
		case "purge": // what becoming leader of a cursors partition does to the cache
			l.s.cursors.BecomePartitionLeader()
			hist = append(hist, "purge")
			o.Label("cache-purge")
		case "cache":
			cacheOff = !cacheOff
			l.s.cursors.disableCache = cacheOff
			hist = append(hist, fmt.Sprintf("cache-off=%v", cacheOff))
		case "pause":
			ctx, cancel := ctxFor("", 10*time.Second)
			st := l.s.metadata.PauseStream(ctx, &proto.PauseStreamOp{Stream: cursorsStream, Partitions: []int32{0, 1}, ResumeAll: op.N%2 == 0})
			cancel()
			if st != nil {
				return vfutil.Failf("harness/pause", "%v", st.Err())
			}
			pausedOnce = true
			hist = append(hist, "pause-cursors")
			o.Label("cursors-paused")
		case "restart":
			what := "restart"
			if op.N%2 == 1 {
				// a Raft snapshot first: the restarted server restores its metadata
				// from the snapshot and has no operation to replay behind it
				serr := make(chan error, 1)
				go func() { serr <- l.s.getRaft().Snapshot().Error() }()
				select {
				case err := <-serr:
					if err == nil {
						what = "restart-from-snapshot"
					}
				case <-time.After(20 * time.Second):
					return vfutil.Failf("harness/snapshot", "Raft snapshot did not finish within 20 s")
				}
			}
			if err := l.restart(); err != nil {
				return vfutil.Failf("C11/restart-error", "%v", err)
			}
			l.s.cursors.disableCache = cacheOff
			hist = append(hist, what)
			o.Label(what)
			if !pausedOnce {
				// bounded liveness: the restarted server answers fetches again (its
				// cursors partitions have to lead again for that)
				id, st, p := keyOf(0)
				var lastErr error
				answered := false
				for deadline := time.Now().Add(20 * time.Second); time.Now().Before(deadline); {
					ctx, cancel := ctxFor("", 5*time.Second)
					_, lastErr = l.s.api.FetchCursor(ctx, &client.FetchCursorRequest{Stream: st, Partition: p, CursorId: id})
					cancel()
					if lastErr == nil {
						answered = true
						break
					}
					time.Sleep(20 * time.Millisecond)
				}
				if !answered {
					return vfutil.Failf("C11/no-answer-after-"+what+"/bounded-liveness(20s)", "FetchCursor(%s,%s,%d) still fails 20 s after the %s: %v; history %v", id, st, p, what, lastErr, tailS(hist, 40))
				}
			}
		}
	}
	// final sweep: every key, with the cache bypassed and through it
	for _, off := range []bool{true, false} {
		l.s.cursors.disableCache = off
		for k := 0; k < c.Keys && k < 60; k++ {
			if f := doFetch(k); f != nil {
				return f
			}
		}
	}
	l.s.cursors.disableCache = false
	if fetches > 0 && fetchErrs*5 > fetches {
		o.Inconclusive("more than 20% of the fetches returned an error")
	}
	o.Count("fetches", fetches)
	o.Count("fetch_errors", fetchErrs)
	if cleanedAfterSet {
		o.NonTrivial()
	}
	return nil
}

func errMark(err error) string {
	if err != nil {
		return "=err"
	}
	return ""
}

func tailS(h []string, n int) []string {
	if len(h) > n {
		return h[len(h)-n:]
	}
	return h
}

func TestVerifC11(t *testing.T) {
	defer func() {
		if c11L != nil {
			c11L.close()
		}
	}()
	vfutil.Run(t, vfutil.Spec[c11Case]{ID: "C11", Gen: genC11, Run: runC11, Journal: true})
}
