//go:build verif

package server

import (
	"context"
	"fmt"
	"os"
	"sync"
	"testing"
	"time"

	client "github.com/liftbridge-io/liftbridge-api/v2/go"
	"google.golang.org/grpc/codes"

	"github.com/liftbridge-io/liftbridge/server/commitlog"
	"github.com/liftbridge-io/liftbridge/server/vfutil"
	"pgregory.net/rapid"
)

// C13a: sequential model of group subscriptions on one partition.

type c13Op struct {
	Op   string `json:"op"` // sub | cancel | drain | publish
	G    int    `json:"g,omitempty"`
	C    int    `json:"c,omitempty"`
	E    int    `json:"e,omitempty"`
	Stop int    `json:"stop,omitempty"` // 0 on cancel, 1 latest
	Idx  int    `json:"idx,omitempty"`
	Mode int    `json:"mode,omitempty"`
	N    int    `json:"n,omitempty"`
	// sub only: the caller of the replaced subscription is slow to let go (its
	// context stays alive while 24 more messages are committed): the replaced
	// subscription must stop delivering by itself
	Slow bool `json:"slow,omitempty"`
}

type c13Case struct {
	Initial int     `json:"initial"` // committed messages before the first step
	Ops     []c13Op `json:"ops"`
}

func genC13(t *rapid.T) c13Case {
	c := c13Case{Initial: rapid.IntRange(0, 4).Draw(t, "initial")}
	n := rapid.IntRange(2, 20).Draw(t, "nops")
	for i := 0; i < n; i++ {
		switch rapid.SampledFrom([]string{"sub", "sub", "sub", "sub", "cancel", "cancel", "drain", "publish"}).Draw(t, "op") {
		case "sub":
			c.Ops = append(c.Ops, c13Op{Op: "sub", G: rapid.IntRange(0, 1).Draw(t, "g"), C: rapid.IntRange(0, 2).Draw(t, "c"),
				E: rapid.IntRange(0, 4).Draw(t, "e"), Stop: rapid.SampledFrom([]int{0, 0, 0, 1}).Draw(t, "stop"), Slow: rapid.IntRange(0, 2).Draw(t, "slow") == 0})
		case "cancel":
			c.Ops = append(c.Ops, c13Op{Op: "cancel", Idx: rapid.IntRange(0, 30).Draw(t, "idx"), Mode: rapid.IntRange(0, 1).Draw(t, "mode")})
		case "drain":
			c.Ops = append(c.Ops, c13Op{Op: "drain", Idx: rapid.IntRange(0, 30).Draw(t, "idx")})
		case "publish":
			c.Ops = append(c.Ops, c13Op{Op: "publish", N: rapid.IntRange(1, 3).Draw(t, "n")})
		}
	}
	return c
}

type c13Sub struct {
	id       int
	group    string
	consumer string
	epoch    uint64
	stop     int
	sub      *subscription
	cancel   context.CancelFunc
	state    string // active | replaced | cancelled | ended
	got      int
}

func (s *c13Sub) closedFired() bool {
	select {
	case <-s.sub.Closed():
		return true
	default:
		return false
	}
}

func runC13(c c13Case, o *vfutil.Obs) *vfutil.Failure {
	dir := vfutil.TempDir("c13")
	defer os.RemoveAll(dir)
	s := vfBare(dir, "me")
	p, err := vfPartition(s, "foo", 0, nil)
	if err != nil {
		return vfutil.Failf("harness/partition", "%v", err)
	}
	defer p.Close()
	ts := int64(1000)
	publish := func(n int) {
		for i := 0; i < n; i++ {
			ts++
			p.log.Append([]*commitlog.Message{{MagicByte: 1, Value: []byte(fmt.Sprintf("m%d", ts)), Timestamp: ts, LeaderEpoch: 1, Headers: map[string][]byte{}, Offset: -1}})
		}
		p.log.SetHighWatermark(p.log.NewestOffset())
	}
	publish(c.Initial)

	var subs []*c13Sub
	holder := map[string]*c13Sub{}
	var hist []string
	defer func() {
		for _, x := range subs {
			x.cancel()
			x.sub.Close()
		}
	}()

	liveLoops := func() int64 {
		n := int64(0)
		for _, x := range subs {
			if x.state == "active" {
				n++
			}
		}
		return n
	}
	quiesce := func() *vfutil.Failure {
		want := liveLoops()
		for _, bound := range []time.Duration{2 * time.Second, 20 * time.Second} {
			deadline := time.Now().Add(bound)
			for time.Now().Before(deadline) {
				p.mu.RLock()
				n := p.subscriberCount
				p.mu.RUnlock()
				if n == want {
					// a loop starting and another exiting can cross: require the
					// count to be stable for a moment
					stable := true
					for i := 0; i < 5 && stable; i++ {
						time.Sleep(200 * time.Microsecond)
						p.mu.RLock()
						stable = p.subscriberCount == want
						p.mu.RUnlock()
					}
					if stable {
						return nil
					}
					continue
				}
				time.Sleep(100 * time.Microsecond)
			}
		}
		p.mu.RLock()
		n := p.subscriberCount
		p.mu.RUnlock()
		return vfutil.Failf("C13/loop-did-not-exit/bounded-liveness(20s)", "history %v: %d subscription loops still running, model expects %d", hist, n, want)
	}
	var checkRegistryOnce func(step int) *vfutil.Failure
	// The loop clean-up (unregistering, subscriber count) runs on the
	// subscription goroutines; a check is retried until it holds and only a
	// state that persists for the whole bound is a violation.
	checkRegistry := func(step int) *vfutil.Failure {
		deadline := time.Now().Add(22 * time.Second)
		for {
			f := checkRegistryOnce(step)
			if f == nil || time.Now().After(deadline) {
				return f
			}
			time.Sleep(200 * time.Microsecond)
		}
	}
	checkRegistryOnce = func(step int) *vfutil.Failure {
		for _, g := range []string{"g0", "g1"} {
			m := p.GetGroupConsumer(g)
			h := holder[g]
			switch {
			case h == nil && m != nil:
				return vfutil.Failf("C13/stale-registration", "step %d, history %v: no active subscription of group %s but %s (epoch %d) is still registered", step, hist, g, m.consumerID, m.groupEpoch)
			case h != nil && m == nil:
				cls := "different-consumer"
				if h.id > 0 {
					for _, x := range subs[:h.id] {
						if x.group == h.group && x.consumer == h.consumer {
							cls = "same-consumer-id-replacement"
						}
					}
				}
				return vfutil.Failf("C13/active-subscription-unregistered/"+cls, "step %d, history %v: subscription #%d (%s/%s epoch %d) is active but the partition has no registered subscriber for the group, so any further subscriber would be admitted next to it", step, hist, h.id, g, h.consumer, h.epoch)
			case h != nil && (m.sub != h.sub || m.consumerID != h.consumer || m.groupEpoch != h.epoch):
				return vfutil.Failf("C13/wrong-registration", "step %d, history %v: group %s registered %s epoch %d, model holder #%d %s epoch %d", step, hist, g, m.consumerID, m.groupEpoch, h.id, h.consumer, h.epoch)
			}
		}
		// at most one active subscription per group, and none of them was cancelled by the server
		for _, g := range []string{"g0", "g1"} {
			n := 0
			for _, x := range subs {
				if x.group == g && x.state == "active" {
					n++
					if x.closedFired() {
						return vfutil.Failf("C13/active-subscription-cancelled", "step %d, history %v: subscription #%d was cancelled by the server although nothing replaced it", step, hist, x.id)
					}
				}
			}
			if n > 1 {
				return vfutil.Failf("C13/two-active-subscriptions", "step %d, history %v: group %s has %d active subscriptions", step, hist, g, n)
			}
		}
		return nil
	}
	sameIDReplace, staleRefused, endedThenNew := false, false, false
	for step, op := range c.Ops {
		switch op.Op {
		case "publish":
			publish(op.N)
			hist = append(hist, fmt.Sprintf("publish(%d)", op.N))
		case "sub":
			g, cons := fmt.Sprintf("g%d", op.G), fmt.Sprintf("c%d", op.C)
			req := &client.SubscribeRequest{Stream: "foo", Partition: 0, StartPosition: client.StartPosition_EARLIEST,
				Consumer: &client.Consumer{GroupId: g, ConsumerId: cons, GroupEpoch: uint64(op.E)}}
			if op.Stop == 1 {
				req.StopPosition = client.StopPosition_STOP_LATEST
			}
			ctx, cancel := context.WithCancel(context.Background())
			sub, st := p.Subscribe(ctx, req)
			h := holder[g]
			hist = append(hist, fmt.Sprintf("#%d=sub(%s,%s,e%d,stop%d)", len(subs), g, cons, op.E, op.Stop))
			if op.Stop == 1 && p.log.NewestOffset() < 0 {
				// "Stream is empty": refused before anything else is touched
				if st == nil {
					cancel()
					return vfutil.Failf("harness/unexpected", "STOP_LATEST on an empty log was accepted")
				}
				cancel()
				hist[len(hist)-1] += "=empty"
				if f := checkRegistry(step); f != nil {
					return f
				}
				continue
			}
			if h != nil && uint64(op.E) < h.epoch {
				cancel()
				if st == nil {
					return vfutil.Failf("C13/stale-epoch-accepted", "step %d, history %v: subscriber with group epoch %d was accepted while #%d holds the partition with epoch %d", step, hist, op.E, h.id, h.epoch)
				}
				if st.Code() != codes.FailedPrecondition {
					return vfutil.Failf("C13/stale-epoch-wrong-status", "step %d: %v", step, st.Err())
				}
				if h.closedFired() {
					return vfutil.Failf("C13/holder-disturbed-by-refused-subscriber", "step %d, history %v: the refused stale subscriber cancelled holder #%d", step, hist, h.id)
				}
				staleRefused = true
				hist[len(hist)-1] += "=refused"
				continue
			}
			if st != nil {
				cancel()
				return vfutil.Failf("C13/subscribe-refused", "step %d, history %v: subscriber with epoch %d refused (%v) although the holder is %v", step, hist, op.E, st.Err(), h)
			}
			x := &c13Sub{id: len(subs), group: g, consumer: cons, epoch: uint64(op.E), stop: op.Stop, sub: sub, cancel: cancel, state: "active"}
			subs = append(subs, x)
			if h != nil {
				if !h.closedFired() {
					return vfutil.Failf("C13/previous-not-cancelled", "step %d, history %v: #%d replaced #%d but the previous subscription was not cancelled", step, hist, x.id, h.id)
				}
				if h.consumer == cons {
					sameIDReplace = true
					o.Label("same-consumer-id-replacement")
				}
				h.state = "replaced"
				if op.Slow && h.stop == 0 {
					// the replaced subscription's caller keeps its context for a
					// while and keeps receiving: a cancelled loop may hand over a
					// message it already holds (the select between "deliver" and
					// "cancelled" is a coin toss each time), but not 24 in a row
					const more = 24
					last := make(chan bool, 1)
					stop := make(chan struct{})
					go func() {
						n := 0
						for {
							select {
							case _, ok := <-h.sub.Messages():
								if !ok {
									last <- false
									return
								}
								n++
							case <-stop:
								last <- n >= more
								return
							}
						}
					}()
					// (what the replaced subscription had not delivered yet before
					// the take-over does not count: wait until it is quiet first)
					time.Sleep(2 * time.Millisecond)
					before := p.log.NewestOffset()
					publish(more)
					hist = append(hist, fmt.Sprintf("publish(%d)-while-#%d-lingers", more, h.id))
					// the new holder's loop has to get through them as well: give both time
					deadline := time.Now().Add(5 * time.Second)
					for time.Now().Before(deadline) {
						time.Sleep(time.Millisecond)
						if p.log.HighWatermark() >= before+more {
							break
						}
					}
					time.Sleep(20 * time.Millisecond)
					close(stop)
					if <-last {
						return vfutil.Failf("C13/replaced-subscription-keeps-delivering", "step %d, history %v: #%d was replaced by #%d and cancelled, but with its caller's context alive it went on to deliver at least %d messages committed afterwards", step, hist, h.id, x.id, more)
					}
					o.Label("replaced-subscription-lingers")
				}
				h.cancel() // what api.Subscribe does when Closed() fires: it returns, which cancels the stream context
				h.sub.Close()
			} else {
				for _, y := range subs[:x.id] {
					if y.group == g && y.state == "ended" {
						endedThenNew = true
					}
				}
			}
			holder[g] = x
			if f := quiesce(); f != nil {
				return f
			}
		case "cancel", "drain":
			var act []*c13Sub
			for _, x := range subs {
				if x.state == "active" {
					act = append(act, x)
				}
			}
			if len(act) == 0 {
				continue
			}
			x := act[op.Idx%len(act)]
			if op.Op == "cancel" {
				if op.Mode == 0 {
					// the client went away: the stream context is cancelled and
					// api.Subscribe's deferred sub.Close() runs
					x.cancel()
					x.sub.Close()
				} else {
					x.sub.Close()
					x.cancel()
				}
				x.state = "cancelled"
				hist = append(hist, fmt.Sprintf("cancel(#%d,mode%d)", x.id, op.Mode))
			} else {
				// read what is available; a STOP_LATEST subscription ends
				ended := false
				for !ended {
					select {
					case <-x.sub.Messages():
						x.got++
					case <-x.sub.Errors():
						ended = true
					case <-time.After(10 * time.Millisecond):
						if x.stop == 1 {
							// a finite subscription: wait for its end (bounded)
							select {
							case <-x.sub.Messages():
								x.got++
								continue
							case <-x.sub.Errors():
								ended = true
								continue
							case <-time.After(20 * time.Second):
								return vfutil.Failf("C13/finite-subscription-does-not-end/bounded-liveness(20s)", "history %v", hist)
							}
						}
						goto drained
					}
				}
			drained:
				hist = append(hist, fmt.Sprintf("drain(#%d)=%v", x.id, ended))
				if ended {
					x.state = "ended"
					x.cancel()
					x.sub.Close()
					o.Label("natural-end")
				}
			}
			if x.state != "active" && holder[x.group] == x {
				holder[x.group] = nil
			}
			if f := quiesce(); f != nil {
				return f
			}
		}
		if f := checkRegistry(step); f != nil {
			return f
		}
	}
	// let any clean-up still in flight finish, then look once more
	time.Sleep(3 * time.Millisecond)
	if f := quiesce(); f != nil {
		return f
	}
	if f := checkRegistry(len(c.Ops)); f != nil {
		return f
	}
	if sameIDReplace || staleRefused || endedThenNew {
		o.NonTrivial()
	}
	if staleRefused {
		o.Label("stale-epoch-refused")
	}
	if endedThenNew {
		o.Label("natural-end-then-new-subscriber")
	}
	return nil
}

func TestVerifC13a(t *testing.T) {
	vfutil.Run(t, vfutil.Spec[c13Case]{ID: "C13", Gen: genC13, Run: runC13, Journal: true})
}

// ---- C13b: concurrent group subscribes (built with -race)

type c13bSub struct {
	G, C, E int
}

type c13bCase struct {
	Rounds [][]c13bSub `json:"rounds"`
	Cancel []int       `json:"cancel"` // after each round: which fraction of the active subscriptions the clients cancel (0-100)
}

func genC13b(t *rapid.T) c13bCase {
	var c c13bCase
	nr := rapid.IntRange(1, 4).Draw(t, "rounds")
	for r := 0; r < nr; r++ {
		k := rapid.IntRange(2, 8).Draw(t, "k")
		var round []c13bSub
		for i := 0; i < k; i++ {
			round = append(round, c13bSub{G: rapid.IntRange(0, 1).Draw(t, "g"), C: rapid.IntRange(0, 3).Draw(t, "c"), E: rapid.IntRange(0, 3).Draw(t, "e")})
		}
		c.Rounds = append(c.Rounds, round)
		c.Cancel = append(c.Cancel, rapid.SampledFrom([]int{0, 0, 50, 100}).Draw(t, "cancel"))
	}
	return c
}

func runC13b(c c13bCase, o *vfutil.Obs) *vfutil.Failure {
	dir := vfutil.TempDir("c13b")
	defer os.RemoveAll(dir)
	s := vfBare(dir, "me")
	p, err := vfPartition(s, "foo", 0, nil)
	if err != nil {
		return vfutil.Failf("harness/partition", "%v", err)
	}
	defer p.Close()
	p.log.Append([]*commitlog.Message{{MagicByte: 1, Value: []byte("m"), Timestamp: 1000, LeaderEpoch: 1, Headers: map[string][]byte{}, Offset: -1}})
	p.log.SetHighWatermark(0)
	type live struct {
		spec   c13bSub
		sub    *subscription
		cancel context.CancelFunc
	}
	var active []*live
	defer func() {
		for _, l := range active {
			l.cancel()
			l.sub.Close()
		}
	}()
	contended := false
	for ri, round := range c.Rounds {
		var (
			mu       sync.Mutex
			accepted []*live
			wg       sync.WaitGroup
			start    = make(chan struct{})
		)
		for _, sp := range round {
			wg.Add(1)
			go func(sp c13bSub) {
				defer wg.Done()
				ctx, cancel := context.WithCancel(context.Background())
				req := &client.SubscribeRequest{Stream: "foo", Partition: 0, StartPosition: client.StartPosition_NEW_ONLY,
					Consumer: &client.Consumer{GroupId: fmt.Sprintf("g%d", sp.G), ConsumerId: fmt.Sprintf("c%d", sp.C), GroupEpoch: uint64(sp.E)}}
				<-start
				sub, st := p.Subscribe(ctx, req)
				if st != nil {
					cancel()
					return
				}
				mu.Lock()
				accepted = append(accepted, &live{spec: sp, sub: sub, cancel: cancel})
				mu.Unlock()
			}(sp)
		}
		close(start)
		wg.Wait()
		active = append(active, accepted...)
		// what api.Subscribe does for a cancelled subscription: it returns
		var still []*live
		for _, l := range active {
			select {
			case <-l.sub.Closed():
				l.cancel()
				l.sub.Close()
			default:
				still = append(still, l)
			}
		}
		active = still
		// at most one active subscription per group, and it is the registered one
		deadline := time.Now().Add(22 * time.Second)
		for {
			var f *vfutil.Failure
			for g := 0; g < 2; g++ {
				var mine []*live
				for _, l := range active {
					if l.spec.G == g {
						mine = append(mine, l)
					}
				}
				gid := fmt.Sprintf("g%d", g)
				reg := p.GetGroupConsumer(gid)
				if len(mine) > 1 {
					var ds []string
					for _, l := range mine {
						ds = append(ds, fmt.Sprintf("c%d/e%d", l.spec.C, l.spec.E))
					}
					f = vfutil.Failf("C13/two-active-subscriptions/concurrent-subscribes", "round %d: group %s has %d active (not cancelled) subscriptions after concurrent subscribes: %v", ri, gid, len(mine), ds)
				} else if len(mine) == 1 && (reg == nil || reg.sub != mine[0].sub) {
					f = vfutil.Failf("C13/active-subscription-unregistered/concurrent-subscribes", "round %d: the active subscription of group %s is not the registered one", ri, gid)
				} else if len(mine) == 1 {
					// nobody with an older epoch than a subscriber that was refused... the holder has the newest epoch seen this round or earlier
					for _, l := range accepted {
						if l.spec.G == g && l != mine[0] && l.spec.E > mine[0].spec.E {
							f = vfutil.Failf("C13/older-epoch-holds-partition", "round %d: group %s is held by epoch %d although a subscriber with epoch %d was accepted in the same round", ri, gid, mine[0].spec.E, l.spec.E)
						}
					}
				}
				if len(mine) >= 1 {
					n := 0
					for _, sp := range round {
						if sp.G == g {
							n++
						}
					}
					if n >= 2 {
						contended = true
					}
				}
			}
			if f == nil {
				break
			}
			if time.Now().After(deadline) {
				return f
			}
			// a replaced subscription is cancelled synchronously inside Subscribe, so
			// these states do not heal; retry briefly only to be safe against clean-up lag
			time.Sleep(time.Millisecond)
			still = still[:0]
			for _, l := range active {
				select {
				case <-l.sub.Closed():
					l.cancel()
					l.sub.Close()
				default:
					still = append(still, l)
				}
			}
			active = still
			if time.Since(deadline.Add(-22*time.Second)) > 50*time.Millisecond {
				return f
			}
		}
		// clients cancel some of the active subscriptions
		keep := active[:0]
		for i, l := range active {
			if c.Cancel[ri] > 0 && (i*100/len(active)) < c.Cancel[ri] {
				l.cancel()
				l.sub.Close()
				continue
			}
			keep = append(keep, l)
		}
		active = keep
		time.Sleep(2 * time.Millisecond) // let the cancelled loops clean up
	}
	if contended {
		o.NonTrivial()
	}
	return nil
}

func TestVerifC13b(t *testing.T) {
	vfutil.Run(t, vfutil.Spec[c13bCase]{ID: "C13", Gen: genC13b, Run: runC13b, Journal: true})
}
