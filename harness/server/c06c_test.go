//go:build verif

package server

import (
	"fmt"
	"strings"
	"testing"
	"time"

	"github.com/hashicorp/raft"
	client "github.com/liftbridge-io/liftbridge-api/v2/go"

	proto "github.com/liftbridge-io/liftbridge/server/protocol"

	"github.com/liftbridge-io/liftbridge/server/vfutil"
	"pgregory.net/rapid"
)

// C06c: metadata on a started 3-server cluster. Operations go through the
// controller's API and reach the other servers through real Raft; servers take
// Raft snapshots, are stopped and started again (restore from the snapshot plus
// replay of the log behind it). At the end every server must hold the same
// metadata.

type c06cOp struct {
	Op string `json:"op"` // create | delete | pause | readonly | join | leave | snapshot | restart
	S  int    `json:"s,omitempty"`
	N  int    `json:"n,omitempty"`
	B  bool   `json:"b,omitempty"`
	M  int    `json:"m,omitempty"`
	X  int    `json:"x,omitempty"`
}

type c06cCase struct {
	Ops []c06cOp `json:"ops"`
}

func genC06c(t *rapid.T) c06cCase {
	var c c06cCase
	c.Ops = append(c.Ops, c06cOp{Op: "create", S: 0, N: 2, M: 3}, c06cOp{Op: "create", S: 1, N: 1, M: 1}, c06cOp{Op: "join", S: 0, M: 0}, c06cOp{Op: "join", S: 1, M: 1})
	n := rapid.IntRange(5, 16).Draw(t, "nops")
	restarts := 0
	for i := 0; i < n; i++ {
		kinds := []string{"create", "delete", "pause", "readonly", "readonly", "join", "join", "leave", "snapshot"}
		if restarts < 2 {
			kinds = append(kinds, "restart", "restart")
		}
		op := c06cOp{Op: rapid.SampledFrom(kinds).Draw(t, "op"), S: rapid.IntRange(0, 2).Draw(t, "s"), N: rapid.IntRange(1, 3).Draw(t, "n"),
			B: rapid.Bool().Draw(t, "b"), M: rapid.IntRange(0, 3).Draw(t, "m"), X: rapid.IntRange(0, 2).Draw(t, "x")}
		if op.Op == "restart" {
			restarts++
			// a snapshot first, half of the time, so that the restart restores from it
			if rapid.IntRange(0, 3).Draw(t, "snap-first") != 0 {
				c.Ops = append(c.Ops, c06cOp{Op: "snapshot", X: op.X})
			}
			c.Ops = append(c.Ops, c06cOp{Op: "stop", X: op.X})
			k := rapid.IntRange(0, 3).Draw(t, "while-down")
			for j := 0; j < k; j++ {
				c.Ops = append(c.Ops, c06cOp{Op: rapid.SampledFrom([]string{"create", "delete", "pause", "readonly", "join", "leave"}).Draw(t, "dop"), S: rapid.IntRange(0, 2).Draw(t, "ds"),
					N: rapid.IntRange(1, 2).Draw(t, "dn"), B: rapid.Bool().Draw(t, "db"), M: rapid.IntRange(0, 3).Draw(t, "dm")})
			}
			c.Ops = append(c.Ops, c06cOp{Op: "start", X: op.X})
			continue
		}
		c.Ops = append(c.Ops, op)
	}
	return c
}

// c06cView is c06View without the lines about directories (a server only has
// directories for partitions it replicates).
func c06cView(s *Server) string {
	var b strings.Builder
	for _, ln := range strings.Split(c06View(s), "\n") {
		if strings.HasPrefix(ln, "dir ") || strings.HasPrefix(ln, "missing partition dir") {
			continue
		}
		b.WriteString(ln + "\n")
	}
	return b.String()
}

func runC06c(c c06cCase, o *vfutil.Obs) *vfutil.Failure {
	ids := []string{"a", "b", "c"}
	cl, err := newVFCluster("c06c", ids, func(cfg *Config) {
		cfg.Clustering.ReplicaMaxLeaderTimeout = time.Second
		cfg.Clustering.ReplicaMaxLagTime = time.Second
		cfg.Clustering.ReplicaFetchTimeout = 200 * time.Millisecond
		cfg.Clustering.RaftSnapshots = 1
	})
	if err != nil {
		return vfutil.Failf("harness/start", "%v", err)
	}
	defer cl.close()
	streams := map[string]bool{}
	members := map[string]bool{}
	var hist []string
	down := ""
	restored, restarts := false, 0
	snapped := map[string]bool{}
	for _, op := range c.Ops {
		name := fmt.Sprintf("st%d", op.S)
		switch op.Op {
		case "snapshot":
			id := ids[op.X%3]
			s := cl.srv[id]
			if s == nil {
				continue
			}
			serr := make(chan error, 1)
			go func(f interface{ Error() error }) { serr <- f.Error() }(s.getRaft().Snapshot())
			var err error
			select {
			case err = <-serr:
			case <-time.After(20 * time.Second):
				err = fmt.Errorf("no answer within 20s")
			}
			if err != nil {
				hist = append(hist, fmt.Sprintf("snapshot(%s)=err(%v)", id, err))
				continue
			}
			snapped[id] = true
			hist = append(hist, "snapshot("+id+")")
			continue
		case "stop":
			if down != "" {
				continue
			}
			id := ids[op.X%3]
			cl.stop(id)
			down = id
			hist = append(hist, "stop("+id+")")
			continue
		case "start":
			if down == "" {
				continue
			}
			if err := cl.start(down, false); err != nil {
				return vfutil.Failf("C06/restart-error", "server %s does not start again: %v; history %v", down, err, hist)
			}
			if snapped[down] {
				restored = true
			}
			restarts++
			hist = append(hist, "start("+down+")")
			down = ""
			continue
		}
		l, _, err := cl.leader(30 * time.Second)
		if err != nil {
			return vfutil.Failf("harness/leader", "%v; history %v", err, hist)
		}
		a := l.api
		ctx, cancel := ctxFor("", 20*time.Second)
		switch op.Op {
		case "create":
			if streams[name] {
				cancel()
				continue
			}
			rf := int32(1 + op.M%3)
			if down != "" && rf == 3 {
				rf = 2
			}
			_, err = a.CreateStream(ctx, &client.CreateStreamRequest{Name: name, Subject: name, Partitions: int32(op.N), ReplicationFactor: rf})
			streams[name] = err == nil
		case "delete":
			if !streams[name] {
				cancel()
				continue
			}
			_, err = a.DeleteStream(ctx, &client.DeleteStreamRequest{Name: name})
			if err == nil {
				delete(streams, name)
			}
		case "pause":
			if !streams[name] {
				cancel()
				continue
			}
			_, err = a.PauseStream(ctx, &client.PauseStreamRequest{Name: name, ResumeAll: op.B})
		case "readonly":
			if !streams[name] {
				cancel()
				continue
			}
			_, err = a.SetStreamReadonly(ctx, &client.SetStreamReadonlyRequest{Name: name, Readonly: op.B})
		case "join":
			m := fmt.Sprintf("m%d", op.M)
			if !streams[name] || members[m] {
				cancel()
				continue
			}
			_, err = a.JoinConsumerGroup(ctx, &client.JoinConsumerGroupRequest{GroupId: "cg", ConsumerId: m, Streams: []string{name}})
			members[m] = err == nil
		case "leave":
			m := fmt.Sprintf("m%d", op.M)
			if !members[m] {
				cancel()
				continue
			}
			_, err = a.LeaveConsumerGroup(ctx, &client.LeaveConsumerGroupRequest{GroupId: "cg", ConsumerId: m})
			if err == nil {
				delete(members, m)
			}
		}
		cancel()
		hist = append(hist, fmt.Sprintf("%s(%s)%s", op.Op, name, errMark(err)))
	}
	if down != "" {
		if err := cl.start(down, false); err != nil {
			return vfutil.Failf("C06/restart-error", "server %s does not start again: %v; history %v", down, err, hist)
		}
	}
	// ---- quiescence: one controller, every server has applied what the
	// controller has, and nothing changes any more (ISR changes and member
	// expiry are operations the servers commit on their own)
	views := map[string]string{}
	deadline := time.Now().Add(60 * time.Second)
	stableSince := time.Time{}
	var lastIdx uint64
	for {
		l, _, err := cl.leader(30 * time.Second)
		if err != nil {
			return vfutil.Failf("harness/leader", "%v; history %v", err, hist)
		}
		li := l.getRaft().AppliedIndex()
		same := true
		for _, id := range ids {
			if cl.srv[id].getRaft() == nil || cl.srv[id].getRaft().AppliedIndex() != li {
				same = false
			}
		}
		if same && li == lastIdx {
			if stableSince.IsZero() {
				stableSince = time.Now()
			}
			if time.Since(stableSince) > 300*time.Millisecond {
				for _, id := range ids {
					views[id] = c06cView(cl.srv[id])
				}
				// the applied indexes must not have moved while the views were taken
				moved := false
				for _, id := range ids {
					if cl.srv[id].getRaft().AppliedIndex() != li {
						moved = true
					}
				}
				if !moved {
					break
				}
				stableSince = time.Time{}
			}
		} else {
			stableSince = time.Time{}
		}
		lastIdx = li
		if time.Now().After(deadline) {
			return vfutil.Failf("harness/quiescence", "the servers' applied indexes did not converge within 60s; history %v", hist)
		}
		time.Sleep(10 * time.Millisecond)
	}
	// Raft reports an index as applied when it has been handed to the FSM, which
	// may still be working on it: a disagreement only counts if it persists
	agree := func() bool {
		for _, id := range ids[1:] {
			if views[id] != views[ids[0]] {
				return false
			}
		}
		return true
	}
	for wait := time.Now().Add(30 * time.Second); !agree() && time.Now().Before(wait); {
		time.Sleep(100 * time.Millisecond)
		for _, id := range ids {
			views[id] = c06cView(cl.srv[id])
		}
		o.Label("views-needed-settling")
	}
	for _, id := range ids[1:] {
		if views[id] != views[ids[0]] {
			// the committed operations, for the report
			var log []string
			if l, _, err := cl.leader(time.Second); err == nil {
				rn := l.getRaft()
				first, _ := rn.store.FirstIndex()
				last, _ := rn.store.LastIndex()
				for i := first; i <= last && i > 0; i++ {
					lg := new(raft.Log)
					if rn.store.GetLog(i, lg) != nil || lg.Type != raft.LogCommand {
						continue
					}
					rl := new(proto.RaftLog)
					if rl.Unmarshal(lg.Data) == nil {
						log = append(log, fmt.Sprintf("%d:%s", i, rl.Op))
					}
				}
			}
			return vfutil.Failf("C06/servers-disagree/"+c06DiffClass(views[ids[0]], views[id]), "history %v; committed operations %v: 30 s after all servers reported the same applied Raft index, server %s holds\n%s\nbut server %s holds\n%s", hist, log, ids[0], views[ids[0]], id, views[id])
		}
	}
	if restarts > 0 {
		o.Label("restart")
	}
	if restored {
		o.NonTrivial()
		o.Label("restart-after-own-snapshot")
	}
	return nil
}

func TestVerifC06c(t *testing.T) {
	vfutil.Run(t, vfutil.Spec[c06cCase]{ID: "C06", Gen: genC06c, Run: runC06c, Journal: true})
}
