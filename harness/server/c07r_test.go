//go:build verif

package server

import (
	"fmt"
	"sort"
	"sync"
	"testing"
	"time"

	proto "github.com/liftbridge-io/liftbridge/server/protocol"
	"github.com/liftbridge-io/liftbridge/server/vfutil"
	"pgregory.net/rapid"
)

// C07r: the controller handles requests concurrently. A quorum of leader
// reports (which makes the controller elect a new leader) races with ISR shrink
// requests that the leader being deposed sends for its followers, each naming
// the (leader, epoch) pair that is current when it is sent. Whatever the
// interleaving: afterwards the leader is in the in-sync set, and a shrink that
// was accepted did not take effect under another leader than the one it names.

type c07rCase struct {
	Replicas int   `json:"replicas"` // 3 or 4
	Delays   []int `json:"delays"`   // microseconds before each of the concurrent requests starts
	Shrinks  int   `json:"shrinks"`  // how many followers the old leader tries to shrink
}

func genC07r(t *rapid.T) c07rCase {
	c := c07rCase{Replicas: rapid.SampledFrom([]int{3, 3, 4}).Draw(t, "replicas")}
	c.Shrinks = rapid.IntRange(1, c.Replicas-1).Draw(t, "shrinks")
	for i := 0; i < 8; i++ {
		c.Delays = append(c.Delays, rapid.SampledFrom([]int{0, 0, 50, 200, 500, 1000, 2000}).Draw(t, "delay"))
	}
	return c
}

func runC07r(c c07rCase, o *vfutil.Obs) *vfutil.Failure {
	l, err := c07Setup()
	if err != nil {
		return vfutil.Failf("harness/setup", "%v", err)
	}
	s := l.s
	c07Seq++
	name := fmt.Sprintf("for%d", c07Seq)
	var replicas []string
	for i := 0; i < c.Replicas; i++ {
		replicas = append(replicas, string(rune('b'+i)))
	}
	create := &proto.RaftLog{Op: proto.Op_CREATE_STREAM, CreateStreamOp: &proto.CreateStreamOp{Stream: &proto.Stream{Name: name, Subject: name,
		Partitions: []*proto.Partition{{Subject: name, Stream: name, Id: 0, ReplicationFactor: int32(c.Replicas), Replicas: append([]string{}, replicas...), Isr: append([]string{}, replicas...), Leader: replicas[0]}}}}}
	ctx, cancel := ctxFor("", 20*time.Second)
	fut, err := s.getRaft().applyOperation(ctx, create, nil)
	if err == nil {
		err = fut.Error()
	}
	cancel()
	if err != nil {
		return vfutil.Failf("harness/create", "%v", err)
	}
	defer func() {
		ctx, cancel := ctxFor("", 20*time.Second)
		s.metadata.DeleteStream(ctx, &proto.DeleteStreamOp{Stream: name})
		cancel()
	}()
	p := s.metadata.GetPartition(name, 0)
	if p == nil {
		return vfutil.Failf("harness/create", "partition missing after create")
	}
	leader, epoch := p.GetLeader()
	followers := replicas[1:]
	var wg sync.WaitGroup
	delay := func(i int) { time.Sleep(time.Duration(c.Delays[i%len(c.Delays)]) * time.Microsecond) }
	type res struct {
		what string
		ok   bool
	}
	results := make([]res, 0, 8)
	var mu sync.Mutex
	k := 0
	// every follower reports the leader: a quorum
	for _, f := range followers {
		wg.Add(1)
		go func(f string, i int) {
			defer wg.Done()
			delay(i)
			ctx, cancel := ctxFor("", 20*time.Second)
			st := s.metadata.ReportLeader(ctx, &proto.ReportLeaderOp{Stream: name, Partition: 0, Replica: f, Leader: leader, LeaderEpoch: epoch})
			cancel()
			mu.Lock()
			results = append(results, res{"report(" + f + ")", st == nil})
			mu.Unlock()
		}(f, k)
		k++
	}
	// the leader shrinks followers out of the ISR, naming itself and its epoch
	for _, f := range followers[:c.Shrinks] {
		wg.Add(1)
		go func(f string, i int) {
			defer wg.Done()
			delay(i)
			ctx, cancel := ctxFor("", 20*time.Second)
			st := s.metadata.ShrinkISR(ctx, &proto.ShrinkISROp{Stream: name, Partition: 0, ReplicaToRemove: f, Leader: leader, LeaderEpoch: epoch})
			cancel()
			mu.Lock()
			results = append(results, res{"shrink(" + f + ")", st == nil})
			mu.Unlock()
		}(f, k)
		k++
	}
	done := make(chan struct{})
	go func() { wg.Wait(); close(done) }()
	select {
	case <-done:
	case <-time.After(60 * time.Second):
		return vfutil.Failf("harness/requests-hang", "the concurrent requests did not return within 60s")
	}
	nl, ne := p.GetLeader()
	isr := p.GetISR()
	sort.Strings(isr)
	var rs []string
	for _, r := range results {
		rs = append(rs, fmt.Sprintf("%s=%v", r.what, r.ok))
	}
	sort.Strings(rs)
	in := false
	for _, r := range isr {
		if r == nl {
			in = true
		}
	}
	if nl != leader {
		o.Label("failover-raced-with-shrinks")
		o.NonTrivial()
	}
	if !in {
		return vfutil.Failf("C07/leader-not-in-isr/concurrent-requests", "leader %s(%d) reported by all followers while it asks to shrink %v: afterwards the leader is %s(%d) and the ISR is %v; requests %v", leader, epoch, followers[:c.Shrinks], nl, ne, isr, rs)
	}
	if ne < epoch {
		return vfutil.Failf("C07/leader-epoch-decreased", "leader epoch %d -> %d", epoch, ne)
	}
	return nil
}

func TestVerifC07r(t *testing.T) {
	defer func() {
		if c07L != nil {
			c07L.close()
		}
	}()
	vfutil.Run(t, vfutil.Spec[c07rCase]{ID: "C07", Gen: genC07r, Run: runC07r, Journal: true})
}
