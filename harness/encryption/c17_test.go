//go:build verif

package encryption

import (
	"bytes"
	"fmt"
	"os"
	"testing"

	"github.com/liftbridge-io/liftbridge/server/vfutil"
	"pgregory.net/rapid"
)

type c17Case struct {
	Kind   string `json:"kind"` // roundtrip | tamper | wrongkey
	Key1   string `json:"key1"`
	Key2   string `json:"key2,omitempty"`
	Value  []byte `json:"value"`
	Pos    int    `json:"pos"`    // tamper: position selector; -1 = every position
	Region int    `json:"region"` // tamper: 0 any, 1 length byte, 2 wrapped key, 3 nonce, 4 ciphertext+tag
	Repl   int    `json:"repl"`   // 0 ^b, 1 b+1, 2 0x00, 3 0xFF
}

var c17KeyGen = rapid.Custom(func(t *rapid.T) string {
	n := rapid.SampledFrom([]int{16, 32}).Draw(t, "keylen")
	return rapid.StringOfN(rapid.RuneFrom(nil, &unicodeASCIIPrintable), n, n, n).Draw(t, "key")
})

func genC17(t *rapid.T) c17Case {
	c := c17Case{Key1: c17KeyGen.Draw(t, "key1")}
	c.Value = rapid.OneOf(
		rapid.Just([]byte{}),
		rapid.SliceOfN(rapid.Byte(), 1, 7),
		rapid.SliceOfN(rapid.Byte(), 8, 64),
		rapid.SliceOfN(rapid.Byte(), 65, 4096),
		rapid.Map(rapid.IntRange(0, 65536), func(n int) []byte { return make([]byte, n) }),
		rapid.Map(rapid.IntRange(8, 2000), func(n int) []byte { return bytes.Repeat([]byte("secret! "), n/8+1)[:n] }),
	).Draw(t, "value")
	switch rapid.IntRange(0, 9).Draw(t, "kind") {
	case 0, 1:
		c.Kind = "roundtrip"
	case 2, 3:
		c.Kind = "wrongkey"
		c.Key2 = c17KeyGen.Filter(func(k string) bool { return k != c.Key1 }).Draw(t, "key2")
	default:
		c.Kind = "tamper"
		c.Region = rapid.IntRange(0, 4).Draw(t, "region")
		c.Pos = rapid.IntRange(0, 1<<20).Draw(t, "pos")
		if len(c.Value) <= 200 && rapid.IntRange(0, 9).Draw(t, "allpos") == 0 {
			c.Pos = -1
		}
		c.Repl = rapid.IntRange(0, 3).Draw(t, "repl")
	}
	return c
}

func handlerFor(key string) (*LocalEncryptionHandler, error) {
	os.Setenv(masterKeyVarName, key)
	defer os.Unsetenv(masterKeyVarName)
	return NewLocalEncryptionHandler()
}

func replByte(b byte, mode int) byte {
	switch mode {
	case 0:
		return ^b
	case 1:
		return b + 1
	case 2:
		return 0x00
	default:
		return 0xFF
	}
}

func runC17(c c17Case, o *vfutil.Obs) *vfutil.Failure {
	o.Label("kind:" + c.Kind)
	h1, err := handlerFor(c.Key1)
	if err != nil {
		return vfutil.Failf("harness/key", "valid %d-byte master key rejected: %v", len(c.Key1), err)
	}
	stored, err := h1.Seal(c.Value)
	if err != nil {
		return vfutil.Failf("C17/seal-error", "%v", err)
	}
	switch {
	case len(c.Value) == 0:
		o.Label("value:empty")
	case len(c.Value) < 8:
		o.Label("value:1-7")
	case len(c.Value) <= 4096:
		o.Label("value:8-4096")
	default:
		o.Label("value:large")
	}
	// (1) round trip and (2) no plaintext in the stored form - checked in every kind
	back, err := h1.Read(stored)
	if err != nil {
		return vfutil.Failf("C17/roundtrip/error", "Read(Seal(v)) failed for a %d-byte value: %v", len(c.Value), err)
	}
	if !bytes.Equal(back, c.Value) {
		return vfutil.Failf("C17/roundtrip/different", "Read(Seal(v)) returned %d bytes, want the %d-byte value", len(back), len(c.Value))
	}
	if len(c.Value) >= 8 && bytes.Contains(stored, c.Value) {
		return vfutil.Failf("C17/plaintext-stored", "the stored form contains the %d-byte value in clear", len(c.Value))
	}
	if bytes.Equal(stored, c.Value) {
		return vfutil.Failf("C17/plaintext-stored", "the stored form equals the value")
	}
	switch c.Kind {
	case "roundtrip":
		if len(c.Value) >= 8 {
			o.NonTrivial()
		}
		again, err := h1.Seal(c.Value)
		if err != nil {
			return vfutil.Failf("C17/seal-error", "%v", err)
		}
		if bytes.Equal(again, stored) {
			return vfutil.Failf("C17/deterministic-seal", "two seals of the same value are byte-identical (nonce reuse)")
		}
		// a second handler with the same master key reads it (restart)
		h1b, _ := handlerFor(c.Key1)
		b2, err := h1b.Read(stored)
		if err != nil || !bytes.Equal(b2, c.Value) {
			return vfutil.Failf("C17/roundtrip/other-handler", "a new handler with the same master key cannot read the value: %v", err)
		}
	case "wrongkey":
		o.NonTrivial()
		h2, err := handlerFor(c.Key2)
		if err != nil {
			return vfutil.Failf("harness/key", "valid master key rejected: %v", err)
		}
		got, err := h2.Read(stored)
		if err == nil {
			return vfutil.Failf("C17/wrong-key-returned-data", "a handler with a different master key returned %d bytes (equal to plaintext: %v)", len(got), bytes.Equal(got, c.Value))
		}
	case "tamper":
		keyLen := int(stored[0])
		nonceStart := 1 + keyLen
		region := func(p int) string {
			switch {
			case p == 0:
				return "length-byte"
			case p < nonceStart:
				return "wrapped-key"
			case p < nonceStart+12:
				return "nonce"
			default:
				return "ciphertext+tag"
			}
		}
		var positions []int
		if c.Pos < 0 {
			for p := range stored {
				positions = append(positions, p)
			}
			o.Label("tamper:all-positions")
		} else {
			lo, hi := 0, len(stored)
			switch c.Region {
			case 1:
				lo, hi = 0, 1
			case 2:
				lo, hi = 1, nonceStart
			case 3:
				lo, hi = nonceStart, nonceStart+12
			case 4:
				lo, hi = nonceStart+12, len(stored)
			}
			positions = []int{lo + c.Pos%(hi-lo)}
		}
		for _, p := range positions {
			repls := []int{c.Repl}
			if c.Pos < 0 {
				repls = []int{0, 1, 2, 3}
			}
			for _, rm := range repls {
				nb := replByte(stored[p], rm)
				if nb == stored[p] {
					continue
				}
				t := append([]byte{}, stored...)
				t[p] = nb
				o.Label("tamper:" + region(p))
				f := func() (f *vfutil.Failure) {
					defer func() {
						if r := recover(); r != nil {
							f = vfutil.Failf("C17/tamper-panic/"+region(p), "Read panicked on a stored value (%d bytes) with byte %d (%s) changed from %#02x to %#02x: %v", len(stored), p, region(p), stored[p], nb, r)
						}
					}()
					got, err := h1.Read(t)
					if err == nil {
						return vfutil.Failf("C17/tamper-returned-data/"+region(p), "Read returned %d bytes for a stored value with byte %d (%s) changed", len(got), p, region(p))
					}
					return nil
				}()
				if f != nil {
					return f
				}
			}
		}
		if len(c.Value) >= 8 {
			o.NonTrivial()
		}
	default:
		return vfutil.Failf("harness/kind", "unknown kind %q", c.Kind)
	}
	return nil
}

func c17Summary(c c17Case) interface{} {
	v := c.Value
	if len(v) > 16 {
		v = v[:16]
	}
	return map[string]interface{}{"kind": c.Kind, "value_len": len(c.Value), "value_prefix_hex": fmt.Sprintf("% x", v), "key_len": len(c.Key1), "pos": c.Pos, "region": c.Region, "repl": c.Repl}
}

func TestVerifC17a(t *testing.T) {
	vfutil.Run(t, vfutil.Spec[c17Case]{ID: "C17", Gen: genC17, Run: runC17, Summary: c17Summary})
}
