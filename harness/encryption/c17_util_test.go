//go:build verif

package encryption

import "unicode"

// printable ASCII without NUL (master keys travel through an environment variable)
var unicodeASCIIPrintable = unicode.RangeTable{R16: []unicode.Range16{{Lo: 0x21, Hi: 0x7e, Stride: 1}}, LatinOffset: 1}
