//go:build verif

package protocol

import (
	"encoding/base64"
	"bytes"
	"fmt"
	"reflect"
	"testing"

	pb "github.com/golang/protobuf/proto"
	client "github.com/liftbridge-io/liftbridge-api/v2/go"
	"github.com/liftbridge-io/liftbridge/server/vfutil"
	"pgregory.net/rapid"
)

// One row per envelope message type. The MsgType numbers are taken from the
// documentation table, not from the package constants.
type c14Type struct {
	name      string
	code      byte
	fresh     func() pb.Message
	marshal   func(m pb.Message) ([]byte, error) // nil for ReplicationResponse
	unmarshal func(b []byte) (pb.Message, error)
}

var c14Types = []c14Type{
	{"Publish", 0, func() pb.Message { return new(client.Message) },
		func(m pb.Message) ([]byte, error) { return MarshalPublish(m.(*client.Message)) },
		func(b []byte) (pb.Message, error) { return UnmarshalPublish(b) }},
	{"Ack", 1, func() pb.Message { return new(client.Ack) },
		func(m pb.Message) ([]byte, error) { return MarshalAck(m.(*client.Ack)) },
		func(b []byte) (pb.Message, error) { return UnmarshalAck(b) }},
	{"ReplicationRequest", 2, func() pb.Message { return new(ReplicationRequest) },
		func(m pb.Message) ([]byte, error) { return MarshalReplicationRequest(m.(*ReplicationRequest)) },
		func(b []byte) (pb.Message, error) { return UnmarshalReplicationRequest(b) }},
	{"ReplicationResponse", 3, nil, nil, nil},
	{"RaftJoinRequest", 4, func() pb.Message { return new(RaftJoinRequest) },
		func(m pb.Message) ([]byte, error) { return MarshalRaftJoinRequest(m.(*RaftJoinRequest)) },
		func(b []byte) (pb.Message, error) { return UnmarshalRaftJoinRequest(b) }},
	{"RaftJoinResponse", 5, func() pb.Message { return new(RaftJoinResponse) },
		func(m pb.Message) ([]byte, error) { return MarshalRaftJoinResponse(m.(*RaftJoinResponse)) },
		func(b []byte) (pb.Message, error) { return UnmarshalRaftJoinResponse(b) }},
	{"LeaderEpochOffsetRequest", 6, func() pb.Message { return new(LeaderEpochOffsetRequest) },
		func(m pb.Message) ([]byte, error) {
			return MarshalLeaderEpochOffsetRequest(m.(*LeaderEpochOffsetRequest))
		},
		func(b []byte) (pb.Message, error) { return UnmarshalLeaderEpochOffsetRequest(b) }},
	{"LeaderEpochOffsetResponse", 7, func() pb.Message { return new(LeaderEpochOffsetResponse) },
		func(m pb.Message) ([]byte, error) {
			return MarshalLeaderEpochOffsetResponse(m.(*LeaderEpochOffsetResponse))
		},
		func(b []byte) (pb.Message, error) { return UnmarshalLeaderEpochOffsetResponse(b) }},
	{"PropagatedRequest", 8, func() pb.Message { return new(PropagatedRequest) },
		func(m pb.Message) ([]byte, error) { return MarshalPropagatedRequest(m.(*PropagatedRequest)) },
		func(b []byte) (pb.Message, error) { return UnmarshalPropagatedRequest(b) }},
	{"PropagatedResponse", 9, func() pb.Message { return new(PropagatedResponse) },
		func(m pb.Message) ([]byte, error) { return MarshalPropagatedResponse(m.(*PropagatedResponse)) },
		func(b []byte) (pb.Message, error) { return UnmarshalPropagatedResponse(b) }},
	{"ServerInfoRequest", 10, func() pb.Message { return new(ServerInfoRequest) },
		func(m pb.Message) ([]byte, error) { return MarshalServerInfoRequest(m.(*ServerInfoRequest)) },
		func(b []byte) (pb.Message, error) { return UnmarshalServerInfoRequest(b) }},
	{"ServerInfoResponse", 11, func() pb.Message { return new(ServerInfoResponse) },
		func(m pb.Message) ([]byte, error) { return MarshalServerInfoResponse(m.(*ServerInfoResponse)) },
		func(b []byte) (pb.Message, error) { return UnmarshalServerInfoResponse(b) }},
	{"PartitionStatusRequest", 12, func() pb.Message { return new(PartitionStatusRequest) },
		func(m pb.Message) ([]byte, error) {
			return MarshalPartitionStatusRequest(m.(*PartitionStatusRequest))
		},
		func(b []byte) (pb.Message, error) { return UnmarshalPartitionStatusRequest(b) }},
	{"PartitionStatusResponse", 13, func() pb.Message { return new(PartitionStatusResponse) },
		func(m pb.Message) ([]byte, error) {
			return MarshalPartitionStatusResponse(m.(*PartitionStatusResponse))
		},
		func(b []byte) (pb.Message, error) { return UnmarshalPartitionStatusResponse(b) }},
	{"PartitionNotification", 14, func() pb.Message { return new(PartitionNotification) },
		func(m pb.Message) ([]byte, error) {
			return MarshalPartitionNotification(m.(*PartitionNotification))
		},
		func(b []byte) (pb.Message, error) { return UnmarshalPartitionNotification(b) }},
}

type c14Case struct {
	Kind string `json:"kind"` // bytes | roundtrip | crc
	Data []byte `json:"data"` // bytes: the input; roundtrip/crc: the protobuf encoding of the value
	Type int    `json:"type"` // roundtrip/crc: index into c14Types
	Flip int    `json:"flip"` // crc: bit to flip, counted from the first CRC byte
	// ReplicationResponse round trip
	Epoch uint64 `json:"epoch,omitempty"`
	HW    int64  `json:"hw,omitempty"`
}

func genProtoValue(t *rapid.T, idx int) []byte {
	ty := c14Types[idx]
	if ty.fresh == nil {
		return rapid.SliceOfN(rapid.Byte(), 0, 200).Draw(t, "rrdata")
	}
	m := ty.fresh()
	vfutil.FillProto(t, reflect.ValueOf(m), ty.name, 3)
	b, err := pb.Marshal(m)
	if err != nil {
		panic("harness: cannot marshal generated " + ty.name + ": " + err.Error())
	}
	return b
}

var c14Payloads = rapid.Custom(func(t *rapid.T) []byte {
	idx := rapid.IntRange(0, len(c14Types)-1).Draw(t, "ptype")
	if c14Types[idx].fresh == nil {
		return rapid.SliceOfN(rapid.Byte(), 0, 40).Draw(t, "rrp")
	}
	return genProtoValue(t, idx)
})

func genC14(t *rapid.T) c14Case {
	switch rapid.IntRange(0, 9).Draw(t, "kind") {
	case 0, 1:
		idx := rapid.IntRange(0, len(c14Types)-1).Draw(t, "type")
		c := c14Case{Kind: "roundtrip", Type: idx, Data: genProtoValue(t, idx)}
		if c14Types[idx].fresh == nil {
			c.Epoch = rapid.Uint64().Draw(t, "epoch")
			c.HW = rapid.Int64().Draw(t, "hw")
		}
		return c
	case 2:
		idx := rapid.IntRange(0, len(c14Types)-1).Draw(t, "type")
		c := c14Case{Kind: "crc", Type: idx, Data: genProtoValue(t, idx)}
		if c14Types[idx].fresh == nil {
			c.Epoch = rapid.Uint64().Draw(t, "epoch")
			c.HW = rapid.Int64().Draw(t, "hw")
		}
		c.Flip = rapid.IntRange(0, (4+len(c.Data)+16)*8-1).Draw(t, "flip")
		return c
	default:
		return c14Case{Kind: "bytes", Data: vfutil.GenEnvelopeBytes(t, c14Payloads)}
	}
}

// payloadOf returns the documented payload of a value of type idx.
func (c c14Case) payload() []byte {
	if c14Types[c.Type].fresh != nil {
		return c.Data
	}
	p := make([]byte, 16, 16+len(c.Data))
	Encoding.PutUint64(p, c.Epoch)
	Encoding.PutUint64(p[8:], uint64(c.HW))
	return append(p, c.Data...)
}

// decodeWith runs the implementation decoder for type idx and compares the
// result with the reference decision.
func c14Decode(idx int, data []byte, o *vfutil.Obs) *vfutil.Failure {
	ty := c14Types[idx]
	payload, why := vfutil.RefEnvelope(data, ty.code)
	if ty.fresh == nil {
		epoch, hw, rest, err := UnmarshalReplicationResponse(data)
		wantOK := why == "" && len(payload) >= 16
		if wantOK != (err == nil) {
			return vfutil.Failf("C14/differential/"+ty.name, "reference accepts=%v (%s) but implementation err=%v for % x", wantOK, why, err, clip(data))
		}
		if wantOK {
			if epoch != Encoding.Uint64(payload[:8]) || hw != int64(Encoding.Uint64(payload[8:16])) || !bytes.Equal(rest, payload[16:]) {
				return vfutil.Failf("C14/differential-value/"+ty.name, "decoded fields differ from the reference for % x", clip(data))
			}
		}
		return nil
	}
	got, err := ty.unmarshal(data)
	if why != "" {
		if err == nil {
			return vfutil.Failf("C14/differential/accepted-non-envelope/"+why, "%s: reference rejects (%s) but implementation accepted % x as %v", ty.name, why, clip(data), got)
		}
		return nil
	}
	want := ty.fresh()
	werr := pb.Unmarshal(payload, want)
	if (werr == nil) != (err == nil) {
		return vfutil.Failf("C14/differential/"+ty.name, "reference payload decode err=%v, implementation err=%v for % x", werr, err, clip(data))
	}
	if err == nil {
		o.Label("accepted:" + ty.name)
		if !pb.Equal(want, got) {
			return vfutil.Failf("C14/differential-value/"+ty.name, "implementation decoded %v, reference %v", got, want)
		}
	}
	return nil
}

func clip(b []byte) []byte {
	if len(b) > 96 {
		return b[:96]
	}
	return b
}

func runC14(c c14Case, o *vfutil.Obs) *vfutil.Failure {
	o.Label("kind:" + c.Kind)
	switch c.Kind {
	case "bytes":
		d := c.Data
		plain := false
		if len(d) >= 5 && bytes.Equal(d[:4], vfutil.EnvelopeMagic) && d[4] == 0 {
			o.Label("reaches-header-logic")
			if len(d) >= 8 && d[5] == 8 && d[6] == 0 && d[7] <= 14 {
				if _, why := vfutil.RefEnvelope(d, d[7]); why == "" {
					plain = true
				}
			}
			if !plain {
				o.NonTrivial()
			}
			if len(d) >= 6 {
				switch hl := int(d[5]); {
				case hl < 8:
					o.Label("headerlen<8")
				case hl > len(d):
					o.Label("headerlen>len")
				case hl == len(d):
					o.Label("headerlen==len")
				}
			}
			if len(d) >= 7 && d[6]&1 != 0 {
				o.Label("crc-flag")
				if _, why := vfutil.RefEnvelope(d, d[7%len(d)]); why == "" {
					o.Label("crc-flag-valid")
				}
			}
		}
		if len(d) < 12 {
			o.Label("len<12")
		}
		// every decoder on every input: totality (a panic is caught by the
		// runner and reported) and agreement with the reference decoder.
		for idx := range c14Types {
			if f := c14Decode(idx, d, o); f != nil {
				return f
			}
		}
		return nil
	case "roundtrip", "crc":
		o.NonTrivial()
		ty := c14Types[c.Type]
		o.Label(c.Kind + ":" + ty.name)
		payload := c.payload()
		var env []byte
		if ty.fresh != nil {
			m0 := ty.fresh()
			if err := pb.Unmarshal(c.Data, m0); err != nil {
				return nil // not a value of this type (only possible in hand-written replays)
			}
			var err error
			env, err = ty.marshal(m0)
			if err != nil {
				return vfutil.Failf("C14/roundtrip/marshal-error", "%s: %v", ty.name, err)
			}
			// the encoder must produce the documented header
			p2, why := vfutil.RefEnvelope(env, ty.code)
			if why != "" {
				return vfutil.Failf("C14/roundtrip/bad-header", "%s: Marshal produced a non-envelope (%s): % x", ty.name, why, clip(env))
			}
			ref := ty.fresh()
			if err := pb.Unmarshal(p2, ref); err != nil || !pb.Equal(ref, m0) {
				return vfutil.Failf("C14/roundtrip/payload", "%s: marshalled payload does not decode to the value (err=%v)", ty.name, err)
			}
			m1, err := ty.unmarshal(env)
			if err != nil {
				return vfutil.Failf("C14/roundtrip/unmarshal-error", "%s: %v", ty.name, err)
			}
			if !pb.Equal(m0, m1) {
				return vfutil.Failf("C14/roundtrip/not-equal", "%s: %v != %v", ty.name, m0, m1)
			}
		} else {
			var buf bytes.Buffer
			n := WriteReplicationResponseHeader(&buf)
			if n != buf.Len() {
				return vfutil.Failf("C14/roundtrip/rr-header-len", "header writer returned %d, wrote %d", n, buf.Len())
			}
			buf.Write(payload)
			env = buf.Bytes()
			e, hw, rest, err := UnmarshalReplicationResponse(env)
			if err != nil || e != c.Epoch || hw != c.HW || !bytes.Equal(rest, c.Data) {
				return vfutil.Failf("C14/roundtrip/replication-response", "got (%d,%d,% x,%v) want (%d,%d,% x)", e, hw, clip(rest), err, c.Epoch, c.HW, clip(c.Data))
			}
		}
		if c.Kind == "roundtrip" {
			return nil
		}
		// CRC variant: a correct checksum is accepted, any single flipped bit in
		// checksum or payload is rejected.
		good := vfutil.BuildEnvelopeCRC(ty.code, payload)
		if f := c14Decode(c.Type, good, o); f != nil {
			return f
		}
		if _, why := vfutil.RefEnvelope(good, ty.code); why != "" {
			return vfutil.Failf("C14/harness", "reference rejects its own CRC envelope: %s", why)
		}
		if ty.fresh != nil {
			if _, err := ty.unmarshal(good); err != nil {
				return vfutil.Failf("C14/crc/good-rejected", "%s: envelope with a correct CRC rejected: %v", ty.name, err)
			}
		} else if len(payload) >= 16 {
			if _, _, _, err := UnmarshalReplicationResponse(good); err != nil {
				return vfutil.Failf("C14/crc/good-rejected", "%s: envelope with a correct CRC rejected: %v", ty.name, err)
			}
		}
		nbits := (len(good) - 8) * 8
		bit := c.Flip % nbits
		bad := append([]byte{}, good...)
		bad[8+bit/8] ^= 1 << uint(bit%8)
		if bit < 32 {
			o.Label("flip-in-crc")
		} else {
			o.Label("flip-in-payload")
		}
		var err error
		if ty.fresh != nil {
			_, err = ty.unmarshal(bad)
		} else {
			_, _, _, err = UnmarshalReplicationResponse(bad)
		}
		if err == nil {
			return vfutil.Failf("C14/crc/mismatch-accepted", "%s: bit %d flipped after the 8-byte header but the envelope was accepted", ty.name, bit)
		}
		return nil
	}
	return vfutil.Failf("C14/harness", "unknown kind %q", c.Kind)
}

func c14Summary(c c14Case) interface{} {
	return map[string]interface{}{"kind": c.Kind, "type": c14Types[c.Type%len(c14Types)].name, "len": len(c.Data), "hex": fmt.Sprintf("% x", clip(c.Data)), "flip": c.Flip}
}

func TestVerifC14a(t *testing.T) {
	vfutil.Run(t, vfutil.Spec[c14Case]{ID: "C14", Gen: genC14, Run: runC14, Summary: c14Summary})
}

// FuzzVerifC14 is the coverage-guided variant of the "bytes" cases: the same
// differential oracle (every decoder against the reference decoder), driven by
// Go's native fuzzer in the thorough tier.
func FuzzVerifC14(f *testing.F) {
	for code := byte(0); code <= 14; code++ {
		f.Add(vfutil.BuildEnvelope(code, []byte{}))
		f.Add(vfutil.BuildEnvelope(code, []byte{0x0a, 0x03, 'f', 'o', 'o', 0x10, 0x01}))
		f.Add(vfutil.BuildEnvelopeCRC(code, []byte{0x0a, 0x01, 'x'}))
	}
	f.Add([]byte{})
	f.Add(append(append([]byte{}, vfutil.EnvelopeMagic...), 0, 200, 0, 3))
	f.Add(append(append([]byte{}, vfutil.EnvelopeMagic...), 0, 7, 0, 3, 1, 2, 3))
	f.Add(append(append([]byte{}, vfutil.EnvelopeMagic...), 0, 12, 1, 9, 0, 0, 0, 0))
	f.Add(append(append([]byte{}, vfutil.EnvelopeMagic...), 0, 8, 0, 9, 0, 0, 0, 0, 0, 0, 0, 1, 0, 0, 0, 0, 0, 0, 0, 2, 9, 9))
	f.Fuzz(func(t *testing.T, data []byte) {
		// a failing seed entry is not saved by the fuzzer: print the input so that
		// the driver can always build a replay file
		defer func() {
			if r := recover(); r != nil {
				t.Fatalf("C14/panic: %v\ninput-base64: %s", r, base64.StdEncoding.EncodeToString(data))
			}
		}()
		if fail := runC14(c14Case{Kind: "bytes", Data: data}, nil); fail != nil {
			t.Fatalf("%s: %s\ninput-base64: %s", fail.Signature, fail.Message, base64.StdEncoding.EncodeToString(data))
		}
	})
}
