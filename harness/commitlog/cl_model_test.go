//go:build verif

package commitlog

// Shared machinery of the commit-log harnesses (C01, C03a, C05, C08, C09,
// C16a): the case format (plain data, JSON-serialisable, every run-time
// dependent argument is a *selector* resolved against the reference model),
// the reference model, and helpers that read a real log back.

import (
	"bytes"
	"context"
	"fmt"
	"os"
	"path/filepath"
	"sort"
	"strconv"
	"strings"
	"time"

	"github.com/liftbridge-io/liftbridge/server/vfutil"
)

// ---------------------------------------------------------------- case format

type clMsgSpec struct {
	K   int   `json:"k"`             // key: -1 nil, 0 empty (non-nil), 1..4 "a".."d", 5 a 200-byte key, 6 a 300-byte key
	V   int   `json:"v"`             // value: -1 nil, 0 empty, n>0 n bytes beginning with a unique tag
	H   int   `json:"h"`             // headers: -1 nil map, 0 empty map, 1..3 entries
	HV  int   `json:"hv,omitempty"`  // header value size class: 0 empty, 1 short, 2 1000 bytes
	DT  int64 `json:"dt,omitempty"`  // timestamp delta to the previous message (>= 0)
	EB  bool  `json:"eb,omitempty"`  // bump the leader epoch before this message
	Exp int   `json:"exp,omitempty"` // OCC expected-offset selector (C16a): 0 none(-1), 1 next, 2 next-1, 3 next+1, 4 zero, 5 huge
}

type clOp struct {
	Op   string      `json:"op"`
	Msgs []clMsgSpec `json:"msgs,omitempty"`
	Cls  int         `json:"cls,omitempty"` // class of the relative argument
	Sel  int         `json:"sel,omitempty"` // selector inside the class
	N    int         `json:"n,omitempty"`
	Unc  bool        `json:"unc,omitempty"`
	Rev  bool        `json:"rev,omitempty"`
	// reopen / configuration
	MaxSeg  int64 `json:"maxseg,omitempty"`
	Workers int   `json:"workers,omitempty"`
	// retention limit selectors for "clean" (resolved against the model layout)
	BytesCut, BytesD int
	MsgsCut, MsgsD   int
	AgeCut, AgeD     int
	Compact          bool `json:"compact,omitempty"`
	// Fault > 0 (clean): before the clean proper, one Clean() runs while the log
	// file of a non-active segment (selector Fault-1) has been closed behind the
	// segment's back, so that deleting that segment fails, as on a flaky disk;
	// the fault is then removed and the clean proper must succeed and leave
	// exactly the expected segments, in memory and on disk
	Fault int `json:"fault,omitempty"`
}

type clCase struct {
	Flavor  string `json:"flavor"`
	Sig     string `json:"sig,omitempty"` // signature prefix when it differs from the flavour (a unit of another property running this flavour's operations)
	MaxSeg  int64  `json:"maxseg"`
	OCC     bool   `json:"occ,omitempty"`
	Workers int    `json:"workers,omitempty"`
	Ops     []clOp `json:"ops"`
}

// ------------------------------------------------------------ reference model

type mMsg struct {
	Off    int64
	Key    []byte // nil-ness is significant
	Val    []byte
	Hdr    map[string][]byte
	TS     int64
	Epoch  uint64
	Size   int64 // bytes on disk including the 28-byte message-set header
	Batch  int   // id of the append call that stored it
	InPos  int   // position inside that batch
	BatchN int   // size of that batch
}

type mSeg struct {
	Base  int64
	Msgs  []*mMsg
	Bytes int64
}

func (s *mSeg) next() int64 {
	if len(s.Msgs) == 0 {
		return s.Base
	}
	return s.Msgs[len(s.Msgs)-1].Off + 1
}

type clModel struct {
	Segs     []*mSeg
	HW       int64
	MaxSeg   int64
	Readonly bool
	Rolls    int
}

func newCLModel(maxSeg int64) *clModel {
	if maxSeg == 0 {
		maxSeg = defaultMaxSegmentBytes
	}
	return &clModel{Segs: []*mSeg{{Base: 0}}, HW: -1, MaxSeg: maxSeg}
}

func (m *clModel) active() *mSeg { return m.Segs[len(m.Segs)-1] }
func (m *clModel) next() int64   { return m.active().next() }
func (m *clModel) newest() int64 { return m.next() - 1 }

func (m *clModel) all() []*mMsg {
	var r []*mMsg
	for _, s := range m.Segs {
		r = append(r, s.Msgs...)
	}
	return r
}

func (m *clModel) oldest() int64 {
	// OldestOffset() is documented as "the offset of the first message in the
	// log or -1 if empty".
	for _, s := range m.Segs {
		if len(s.Msgs) > 0 {
			return s.Msgs[0].Off
		}
	}
	return -1
}

func (m *clModel) get(off int64) *mMsg {
	for _, s := range m.Segs {
		for _, x := range s.Msgs {
			if x.Off == off {
				return x
			}
		}
	}
	return nil
}

// rollIfFull mirrors the documented rule: a new segment is rolled when the
// active one has reached MaxSegmentBytes at the time of an append.
func (m *clModel) rollIfFull() bool {
	if m.active().Bytes >= m.MaxSeg {
		m.Segs = append(m.Segs, &mSeg{Base: m.next()})
		m.Rolls++
		return true
	}
	return false
}

func (m *clModel) appendMsgs(msgs []*mMsg) bool {
	rolled := m.rollIfFull()
	a := m.active()
	for _, x := range msgs {
		x.Off = m.next()
		a.Msgs = append(a.Msgs, x)
		a.Bytes += x.Size
	}
	return rolled
}

// truncate removes every message with offset >= off (dense logs only).
func (m *clModel) truncate(off int64) (what string) {
	idx := -1
	for i, s := range m.Segs {
		if s.next() > off {
			idx = i
			break
		}
	}
	if idx == -1 {
		return "noop"
	}
	seg := m.Segs[idx]
	what = "inside-segment"
	if seg.Base == off {
		what = "at-segment-base"
		if idx != 0 {
			m.Segs = m.Segs[:idx]
			return
		}
	}
	m.Segs = m.Segs[:idx+1]
	var keep []*mMsg
	seg.Bytes = 0
	for _, x := range seg.Msgs {
		if x.Off < off {
			keep = append(keep, x)
			seg.Bytes += x.Size
		}
	}
	seg.Msgs = keep
	return
}

// ------------------------------------------------------------ message builder

type clBuilder struct {
	seq   int
	ts    int64
	epoch uint64
	batch int
	skew  bool // timestamps may go back at an epoch bump (clock skew between leaders); C09 flavour only
}

func newCLBuilder() *clBuilder { return &clBuilder{ts: 1000, epoch: 1} }

func keyOf(k int) []byte {
	switch {
	case k < 0:
		return nil
	case k == 0:
		return []byte{}
	case k <= 4:
		return []byte{byte('a' + k - 1)}
	case k == 5:
		return bytes.Repeat([]byte("K"), 200)
	default:
		return bytes.Repeat([]byte("L"), 300)
	}
}

func (b *clBuilder) build(specs []clMsgSpec) []*mMsg {
	b.batch++
	var out []*mMsg
	for i, sp := range specs {
		b.seq++
		if sp.DT < 0 && !b.skew {
			sp.DT = 0
		}
		if b.ts+sp.DT < 1 {
			sp.DT = 1 - b.ts
		}
		b.ts += sp.DT
		if sp.EB {
			b.epoch++
		}
		x := &mMsg{Key: keyOf(sp.K), TS: b.ts, Epoch: b.epoch, Batch: b.batch, InPos: i, BatchN: len(specs)}
		switch {
		case sp.V < 0:
			x.Val = nil
		case sp.V == 0:
			x.Val = []byte{}
		default:
			tag := []byte(fmt.Sprintf("<%d>", b.seq))
			v := make([]byte, sp.V)
			for j := range v {
				v[j] = byte('A' + (b.seq+j)%26)
			}
			copy(v, tag)
			x.Val = v
		}
		if sp.H >= 0 {
			x.Hdr = map[string][]byte{}
			for j := 0; j < sp.H && j < 3; j++ {
				var hv []byte
				switch sp.HV {
				case 0:
					hv = []byte{}
				case 1:
					hv = []byte(fmt.Sprintf("h%d", b.seq))
				default:
					hv = bytes.Repeat([]byte{byte('0' + j)}, 1100)
				}
				x.Hdr[fmt.Sprintf("hk%d", j)] = hv
			}
		}
		// on-disk size computed from the documented layout, independently of
		// the encoder: 28-byte set header, then crc(4) magic(1) attrs(1)
		// key(4+n) value(4+n) nheaders(2) {klen(2) k vlen(4) v}*
		sz := int64(28 + 4 + 1 + 1 + 4 + len(x.Key) + 4 + len(x.Val) + 2)
		for k, v := range x.Hdr {
			sz += int64(2 + len(k) + 4 + len(v))
		}
		x.Size = sz
		out = append(out, x)
	}
	return out
}

func toProto(msgs []*mMsg) []*Message {
	out := make([]*Message, len(msgs))
	for i, x := range msgs {
		out[i] = &Message{MagicByte: 1, Key: x.Key, Value: x.Val, Headers: x.Hdr, Timestamp: x.TS, LeaderEpoch: x.Epoch, Offset: -1}
	}
	return out
}

// ---------------------------------------------------------------- read helpers

type gotMsg struct {
	Off   int64
	TS    int64
	Epoch uint64
	Key   []byte
	Val   []byte
	Hdr   map[string][]byte
}

func cancelledCtx() context.Context {
	ctx, cancel := context.WithCancel(context.Background())
	cancel()
	return ctx
}

// readForward reads with an already-cancelled context: available messages are
// returned, a read that would have to wait returns an error instead. max
// bounds the number of messages read.
func readForward(l *commitLog, start int64, uncommitted bool, max int) (msgs []gotMsg, openErr, endErr error) {
	r, err := l.NewReader(start, uncommitted)
	if err != nil {
		return nil, err, nil
	}
	ctx := cancelledCtx()
	hb := make([]byte, 28)
	for len(msgs) < max {
		m, off, ts, ep, err := r.ReadMessage(ctx, hb)
		if err != nil {
			return msgs, nil, err
		}
		msgs = append(msgs, gotMsg{Off: off, TS: ts, Epoch: ep, Key: m.Key(), Val: m.Value(), Hdr: m.Headers()})
	}
	return msgs, nil, nil
}

func readReverse(l *commitLog, start int64, uncommitted bool, max int) (msgs []gotMsg, openErr, endErr error) {
	r, err := l.NewReverseReader(start, uncommitted)
	if err != nil {
		return nil, err, nil
	}
	hb := make([]byte, 28)
	for len(msgs) < max {
		m, off, ts, ep, err := r.ReadMessage(context.Background(), hb)
		if err != nil {
			return msgs, nil, err
		}
		msgs = append(msgs, gotMsg{Off: off, TS: ts, Epoch: ep, Key: m.Key(), Val: m.Value(), Hdr: m.Headers()})
	}
	return msgs, nil, nil
}

func sameMsg(want *mMsg, got gotMsg) string {
	if want.Off != got.Off {
		return fmt.Sprintf("offset %d, want %d", got.Off, want.Off)
	}
	if want.TS != got.TS {
		return fmt.Sprintf("offset %d: timestamp %d, want %d", got.Off, got.TS, want.TS)
	}
	if want.Epoch != got.Epoch {
		return fmt.Sprintf("offset %d: leader epoch %d, want %d", got.Off, got.Epoch, want.Epoch)
	}
	if (want.Key == nil) != (got.Key == nil) || !bytes.Equal(want.Key, got.Key) {
		return fmt.Sprintf("offset %d: key %s, want %s", got.Off, show(got.Key), show(want.Key))
	}
	if (want.Val == nil) != (got.Val == nil) || !bytes.Equal(want.Val, got.Val) {
		return fmt.Sprintf("offset %d: value %s, want %s", got.Off, show(got.Val), show(want.Val))
	}
	if len(want.Hdr) != len(got.Hdr) {
		return fmt.Sprintf("offset %d: %d headers, want %d", got.Off, len(got.Hdr), len(want.Hdr))
	}
	for k, v := range want.Hdr {
		g, ok := got.Hdr[k]
		if !ok || !bytes.Equal(g, v) {
			return fmt.Sprintf("offset %d: header %q = %s (present=%v), want %s", got.Off, k, show(g), ok, show(v))
		}
	}
	return ""
}

func show(b []byte) string {
	if b == nil {
		return "nil"
	}
	if len(b) > 24 {
		return fmt.Sprintf("%q…(%d bytes)", b[:24], len(b))
	}
	return fmt.Sprintf("%q", b)
}

func offsetsOf(ms []*mMsg) []int64 {
	r := make([]int64, len(ms))
	for i, x := range ms {
		r[i] = x.Off
	}
	return r
}

func gotOffsets(ms []gotMsg) []int64 {
	r := make([]int64, len(ms))
	for i, x := range ms {
		r[i] = x.Off
	}
	return r
}

// compareSeq checks that got is exactly want (same messages, same order).
func compareSeq(sig, what string, want []*mMsg, got []gotMsg) *vfutil.Failure {
	for i := 0; i < len(want) && i < len(got); i++ {
		if d := sameMsg(want[i], got[i]); d != "" {
			cls := "content"
			if want[i].Off != got[i].Off {
				cls = "offsets"
			}
			return vfutil.Failf(sig+"/"+cls, "%s: position %d: %s (expected offsets %v, got %v)", what, i, d, offsetsOf(want), gotOffsets(got))
		}
	}
	if len(got) < len(want) {
		return vfutil.Failf(sig+"/missing", "%s: got %d messages %v, want %d %v", what, len(got), gotOffsets(got), len(want), offsetsOf(want))
	}
	if len(got) > len(want) {
		return vfutil.Failf(sig+"/extra", "%s: got %d messages %v, want %d %v", what, len(got), gotOffsets(got), len(want), offsetsOf(want))
	}
	return nil
}

// segment base offsets as the file system shows them.
func dirBases(dir string) ([]int64, []string) {
	ents, _ := os.ReadDir(dir)
	var bases []int64
	var other []string
	for _, e := range ents {
		n := e.Name()
		if strings.HasSuffix(n, ".log") {
			v, err := strconv.ParseInt(strings.TrimSuffix(n, ".log"), 10, 64)
			if err == nil {
				bases = append(bases, v)
				continue
			}
		}
		if !strings.HasSuffix(n, ".index") {
			other = append(other, n)
		}
	}
	sort.Slice(bases, func(i, j int) bool { return bases[i] < bases[j] })
	sort.Strings(other)
	return bases, other
}

func logFileSize(dir string, base int64) int64 {
	fi, err := os.Stat(filepath.Join(dir, fmt.Sprintf("%020d.log", base)))
	if err != nil {
		return -1
	}
	return fi.Size()
}

func openLog(dir string, maxSeg int64, mut func(*Options)) (*commitLog, error) {
	opts := Options{Path: dir, MaxSegmentBytes: maxSeg, HWCheckpointInterval: time.Hour, CleanerInterval: time.Hour}
	if mut != nil {
		mut(&opts)
	}
	l, err := New(opts)
	if err != nil {
		return nil, err
	}
	return l.(*commitLog), nil
}

// epochCacheInvariant checks the structural sanity of the leader epoch cache
// against the log contents.
func epochCacheInvariant(l *commitLog, newestMsgEpoch uint64, haveMsgs bool, maxEpoch uint64) string {
	c := l.leaderEpochCache
	c.mu.RLock()
	defer c.mu.RUnlock()
	leo := l.NewestOffset() + 1
	for i, e := range c.epochOffsets {
		if i > 0 {
			p := c.epochOffsets[i-1]
			if e.leaderEpoch <= p.leaderEpoch {
				return fmt.Sprintf("epoch cache not strictly increasing: %d after %d", e.leaderEpoch, p.leaderEpoch)
			}
			if e.startOffset < p.startOffset {
				return fmt.Sprintf("epoch cache start offsets decrease: %d after %d", e.startOffset, p.startOffset)
			}
		}
		if e.startOffset > leo {
			return fmt.Sprintf("epoch %d starts at %d beyond the log end %d", e.leaderEpoch, e.startOffset, leo)
		}
		if e.leaderEpoch > maxEpoch {
			return fmt.Sprintf("epoch %d in the cache was never appended or assigned (max %d)", e.leaderEpoch, maxEpoch)
		}
	}
	if haveMsgs {
		last := uint64(0)
		if n := len(c.epochOffsets); n > 0 {
			last = c.epochOffsets[n-1].leaderEpoch
		}
		if last < newestMsgEpoch {
			return fmt.Sprintf("LastLeaderEpoch %d is below the epoch %d of the newest message", last, newestMsgEpoch)
		}
	}
	return ""
}

// epochLookupInvariant is what the replicas' reconciliation after a leader
// change relies on: the epoch history maps every retained message to the leader
// epoch it was written in (the entry with the greatest start offset at or below
// the message's offset names the message's epoch). Retention and compaction
// trim the history, truncation cuts it, a reopen reloads it.
func epochLookupInvariant(l *commitLog, all []*mMsg) string {
	c := l.leaderEpochCache
	c.mu.RLock()
	defer c.mu.RUnlock()
	for _, m := range all {
		var e uint64
		found := false
		for _, eo := range c.epochOffsets {
			if eo.startOffset <= m.Off {
				e, found = eo.leaderEpoch, true
			}
		}
		if !found && m.Epoch == 0 {
			continue
		}
		if e != m.Epoch {
			return fmt.Sprintf("the epoch history %v maps offset %d to epoch %d, the message was written in epoch %d", c.epochOffsets, m.Off, e, m.Epoch)
		}
	}
	return ""
}
