//go:build verif

package commitlog

import (
	"context"
	"fmt"
	"os"
	"runtime"
	"sync"
	"sync/atomic"
	"testing"
	"time"

	pkgErrors "github.com/pkg/errors"

	"github.com/liftbridge-io/liftbridge/server/vfutil"
	"pgregory.net/rapid"
)

// C03b: concurrent monitor. Appenders, a HW advancer, committed readers and an
// optional read-only toggler run as real goroutines (built with -race); every
// reader checks online that what it is handed is committed, in order, gap-free
// and has the content stored at that offset; at the end every reader must
// reach the final HW.

type c03bReader struct {
	After int `json:"after"` // create the reader once this many messages were appended
	Frac  int `json:"frac"`  // start = frac% of (newest+3) at that moment
}

type c03bCase struct {
	MaxSeg    int64        `json:"maxseg"`
	Appenders int          `json:"appenders"`
	Batches   [][]int      `json:"batches"` // per appender: batch sizes
	ValLen    int          `json:"vallen"`
	Lag       int          `json:"lag"`  // HW follows the recorded end at this distance
	Step      int          `json:"step"` // and moves at most this far at a time (0 = unbounded)
	Readers   []c03bReader `json:"readers"`
	Toggle    int          `json:"toggle"` // number of read-only on/off toggles (0 none)
	Yield     []int        `json:"yield"`  // jitter: Gosched counts cycled by every goroutine
	// RollAge > 0: segment.max.age in nanoseconds, messages carry wall-clock
	// timestamps, and a goroutine does what the cleaner loop does at every tick
	// (roll the active segment when it is due) while the appender runs
	RollAge int64 `json:"rollage,omitempty"`
}

func genC03b(t *rapid.T) c03bCase {
	c := c03bCase{
		MaxSeg:    rapid.SampledFrom([]int64{1, 100, 300, 300, 1000}).Draw(t, "maxseg"),
		Appenders: 1, // a partition has exactly one appending goroutine (leader message loop or follower replication handler)
		ValLen:    rapid.SampledFrom([]int{10, 40, 120}).Draw(t, "vallen"),
		Lag:       rapid.SampledFrom([]int{0, 0, 1, 3, 10}).Draw(t, "lag"),
		Step:      rapid.SampledFrom([]int{0, 1, 2, 7}).Draw(t, "step"),
	}
	total := 0
	for a := 0; a < c.Appenders; a++ {
		nb := rapid.IntRange(5, 60).Draw(t, "nbatches")
		var bs []int
		for i := 0; i < nb; i++ {
			n := rapid.IntRange(1, 5).Draw(t, "bsz")
			bs = append(bs, n)
			total += n
		}
		c.Batches = append(c.Batches, bs)
	}
	nr := rapid.IntRange(1, 6).Draw(t, "nreaders")
	for i := 0; i < nr; i++ {
		c.Readers = append(c.Readers, c03bReader{After: rapid.IntRange(0, total).Draw(t, "after"), Frac: rapid.IntRange(0, 100).Draw(t, "frac")})
	}
	if rapid.IntRange(0, 2).Draw(t, "toggle?") == 0 {
		c.Toggle = rapid.IntRange(1, 6).Draw(t, "toggle")
	}
	if rapid.IntRange(0, 2).Draw(t, "roller?") == 0 {
		c.RollAge = int64(rapid.SampledFrom([]int{20000, 100000, 500000}).Draw(t, "rollage"))
	}
	ny := rapid.IntRange(1, 6).Draw(t, "nyield")
	for i := 0; i < ny; i++ {
		c.Yield = append(c.Yield, rapid.IntRange(0, 3).Draw(t, "y"))
	}
	return c
}

type c03bFail struct {
	mu sync.Mutex
	f  *vfutil.Failure
}

func (b *c03bFail) get() *vfutil.Failure {
	b.mu.Lock()
	defer b.mu.Unlock()
	return b.f
}

func (b *c03bFail) set(f *vfutil.Failure) {
	b.mu.Lock()
	if b.f == nil {
		b.f = f
	}
	b.mu.Unlock()
}

func runC03b(c c03bCase, o *vfutil.Obs) *vfutil.Failure {
	dir := vfutil.TempDir("c03b")
	defer os.RemoveAll(dir)
	l, err := openLog(dir, c.MaxSeg, func(op *Options) {
		if c.RollAge > 0 {
			op.MaxSegmentAge = time.Duration(c.RollAge)
		}
	})
	if err != nil {
		return vfutil.Failf("C03/open-error", "%v", err)
	}
	defer l.Close()

	var (
		fail      c03bFail
		values    sync.Map // offset -> value
		appended  int64    // messages appended and recorded
		recMu     sync.Mutex
		recorded  = map[int64]bool{}
		contig    int64 = -1 // every offset <= contig is recorded
		doneWrite       = make(chan struct{})
		wg        sync.WaitGroup
		maxParked int32
	)
	jitter := func(k *int) {
		if len(c.Yield) == 0 {
			return
		}
		n := c.Yield[*k%len(c.Yield)]
		*k++
		for i := 0; i < n; i++ {
			runtime.Gosched()
		}
	}
	total := 0
	for _, bs := range c.Batches {
		for _, n := range bs {
			total += n
		}
	}

	// appenders
	var awg sync.WaitGroup
	for a := 0; a < c.Appenders; a++ {
		awg.Add(1)
		go func(a int) {
			defer awg.Done()
			k := a
			seq := 0
			for _, n := range c.Batches[a] {
				msgs := make([]*Message, n)
				vals := make([][]byte, n)
				for i := range msgs {
					seq++
					v := make([]byte, c.ValLen)
					copy(v, fmt.Sprintf("a%d-%d|", a, seq))
					vals[i] = v
					msgs[i] = &Message{MagicByte: 1, Value: v, Timestamp: int64(1000 + seq), LeaderEpoch: 1, Offset: -1}
					if c.RollAge > 0 {
						msgs[i].Timestamp = time.Now().UnixNano()
					}
				}
				for {
					offs, err := l.Append(msgs)
					if err == ErrCommitLogReadonly {
						runtime.Gosched()
						time.Sleep(50 * time.Microsecond)
						continue
					}
					if err != nil {
						fail.set(vfutil.Failf("C03/append-error", "appender %d: %v", a, err))
						return
					}
					recMu.Lock()
					for i, off := range offs {
						if recorded[off] {
							recMu.Unlock()
							fail.set(vfutil.Failf("C03/offset-assigned-twice", "appender %d: Append returned offset %d, which an earlier Append had been given (%d messages appended so far)", a, off, atomic.LoadInt64(&appended)))
							return
						}
						values.Store(off, vals[i])
						recorded[off] = true
					}
					for recorded[contig+1] {
						contig++
					}
					recMu.Unlock()
					atomic.AddInt64(&appended, int64(n))
					break
				}
				jitter(&k)
			}
		}(a)
	}
	go func() { awg.Wait(); close(doneWrite) }()
	if c.RollAge > 0 {
		// the cleaner loop's roll check, at a much higher rate than its tick
		wg.Add(1)
		go func() {
			defer wg.Done()
			k := 3
			rolls := 0
			for {
				select {
				case <-doneWrite:
					o.Count("rolls_by_the_roller", rolls)
					return
				default:
				}
				split, err := l.splitIfDue()
				if err != nil {
					fail.set(vfutil.Failf("C03/split-error", "%v", err))
					return
				}
				if split {
					rolls++
				}
				jitter(&k)
			}
		}()
		o.Label("age-based-rolls-concurrent-with-appends")
	}

	// HW advancers: two of them, as on a leader (the commit loop and the
	// fast path of the message loop both move the HW). returnedMax is the
	// largest value whose SetHighWatermark call has returned: from then on the
	// HW can never be observed below it.
	var returnedMax int64 = -1
	noteReturned := func(v int64) {
		for {
			cur := atomic.LoadInt64(&returnedMax)
			if v <= cur || atomic.CompareAndSwapInt64(&returnedMax, cur, v) {
				return
			}
		}
	}
	for mover := 0; mover < 2; mover++ {
		wg.Add(1)
		go func(mover int) {
			defer wg.Done()
			k := 7 + 3*mover
			last := int64(-1)
			for {
				select {
				case <-doneWrite:
					recMu.Lock()
					end := contig
					recMu.Unlock()
					l.SetHighWatermark(end)
					noteReturned(end)
					return
				default:
				}
				recMu.Lock()
				target := contig - int64(c.Lag) - int64(mover) // the second mover trails by one: overlapping, unequal advances
				recMu.Unlock()
				if c.Step > 0 && target > last+int64(c.Step) {
					target = last + int64(c.Step)
				}
				if target > last {
					l.SetHighWatermark(target)
					noteReturned(target)
					last = target
				}
				must := atomic.LoadInt64(&returnedMax)
				if hw := l.HighWatermark(); hw < must {
					fail.set(vfutil.Failf("C03/hw-decreased", "the HW is %d after SetHighWatermark(%d) had returned", hw, must))
				}
				jitter(&k)
				runtime.Gosched()
			}
		}(mover)
	}

	// read-only toggler
	var roGen int64 // bumped before and after every read-only switch: even and unchanged = no switch happened in between
	stopToggle := make(chan struct{})
	if c.Toggle > 0 {
		wg.Add(1)
		go func() {
			defer wg.Done()
			for i := 0; i < c.Toggle; i++ {
				for atomic.LoadInt64(&appended) < int64(total*(i+1)/(c.Toggle+1)) {
					select {
					case <-stopToggle:
						l.SetReadonly(false)
						return
					default:
					}
					runtime.Gosched()
				}
				atomic.AddInt64(&roGen, 1) // odd: a toggle is in progress
				l.SetReadonly(true)
				atomic.AddInt64(&roGen, 1)
				time.Sleep(time.Duration(100+50*i) * time.Microsecond)
				atomic.AddInt64(&roGen, 1)
				l.SetReadonly(false)
				atomic.AddInt64(&roGen, 1)
			}
		}()
	}

	// parked-reader sampler (for the non-trivial rule)
	stopSample := make(chan struct{})
	go func() {
		for {
			select {
			case <-stopSample:
				return
			default:
			}
			l.mu.RLock()
			n := int32(len(l.hwWaiters))
			l.mu.RUnlock()
			if n > atomic.LoadInt32(&maxParked) {
				atomic.StoreInt32(&maxParked, n)
			}
			time.Sleep(20 * time.Microsecond)
		}
	}()

	// readers
	ctx, cancel := context.WithCancel(context.Background())
	defer cancel()
	type rstate struct {
		next          int64
		started       bool
		hist          []string
		start, h0, h1 int64
	}
	states := make([]*rstate, len(c.Readers))
	var rwg sync.WaitGroup
	for i, rc := range c.Readers {
		states[i] = &rstate{}
		rwg.Add(1)
		go func(i int, rc c03bReader) {
			defer rwg.Done()
			st := states[i]
			for atomic.LoadInt64(&appended) < int64(rc.After) {
				select {
				case <-doneWrite:
				default:
					runtime.Gosched()
					continue
				}
				break
			}
			start := (l.NewestOffset() + 3) * int64(rc.Frac) / 100
			h0 := l.HighWatermark()
			r, err := l.NewReader(start, false)
			h1 := l.HighWatermark()
			if err != nil {
				fail.set(vfutil.Failf("C03/reader-open-error", "reader %d: NewReader(%d): %v", i, start, err))
				return
			}
			st.start, st.h0, st.h1 = start, h0, h1
			lo, hi := start, start // allowed first offset
			if start > h0 {
				lo = h0 + 1
				if start > h1+1 {
					hi = h1 + 1
				}
			}
			hb := make([]byte, 28)
			first := true
			for {
				genBefore := atomic.LoadInt64(&roGen)
				newestBefore := l.NewestOffset()
				hwBefore := l.HighWatermark()
				m, off, _, _, err := r.ReadMessage(ctx, hb)
				if err != nil {
					if pkgErrors.Cause(err) == ErrCommitLogReadonly {
						hwAfter := l.HighWatermark()
						newest := l.NewestOffset()
						if g := atomic.LoadInt64(&roGen); g == genBefore && g%2 == 0 && l.IsReadonly() && newestBefore == newest && hwAfter < newest {
							// the log was read-only during the whole call, its end did not
							// move (an append that passed the read-only check before the
							// switch can still land afterwards) and it has uncommitted
							// messages: the reader must keep waiting for the HW instead of
							// ending
							fail.set(vfutil.Failf("C03/ended-instead-of-waiting", "reader %d: got end-of-readonly-log at next offset %d with hw %d below the log end %d", i, st.next, hwAfter, newest))
							return
						}
						if !first && (st.next < hwBefore+1 || st.next > hwAfter+1) {
							fail.set(vfutil.Failf("C03/readonly-end-while-data-committed", "reader %d: got end-of-readonly-log at next offset %d although hw was %d..%d", i, st.next, hwBefore, hwAfter))
							return
						}
						st.hist = append(st.hist, fmt.Sprintf("RO@%d", st.next))
						// re-subscribe where it stopped, as a client would
						at := st.next
						if first {
							at = start
							h0 = l.HighWatermark()
						}
						r, err = l.NewReader(at, false)
						if first {
							h1 = l.HighWatermark()
							st.start, st.h0, st.h1 = at, h0, h1
							lo, hi = at, at
							if at > h0 {
								lo = h0 + 1
								if at > h1+1 {
									hi = h1 + 1
								}
							}
						}
						if err != nil {
							fail.set(vfutil.Failf("C03/reader-open-error", "reader %d: NewReader(%d): %v", i, at, err))
							return
						}
						runtime.Gosched()
						continue
					}
					return // context cancelled at the end of the run
				}
				hwAfter := l.HighWatermark()
				if off > hwAfter {
					fail.set(vfutil.Failf("C03/delivered-wrong/above-hw", "reader %d (start %d) was handed offset %d while the HW is %d; history %v", i, start, off, hwAfter, tailS(st.hist)))
					return
				}
				if first {
					if off < lo || off > hi {
						fail.set(vfutil.Failf("C03/delivered-wrong/first-offset", "reader %d: start %d, hw at creation %d..%d: first delivered offset %d not in [%d,%d]", i, start, h0, h1, off, lo, hi))
						return
					}
					first = false
					st.started = true
				} else if off != st.next {
					fail.set(vfutil.Failf("C03/delivered-wrong/order-or-duplicate", "reader %d (start %d): expected offset %d, got %d; history %v", i, start, st.next, off, tailS(st.hist)))
					return
				}
				v, ok := values.Load(off)
				if !ok || string(v.([]byte)) != string(m.Value()) {
					fail.set(vfutil.Failf("C03/delivered-wrong/content", "reader %d: offset %d carries %q, stored %q (recorded=%v)", i, off, m.Value(), v, ok))
					return
				}
				st.next = off + 1
				st.hist = append(st.hist, fmt.Sprint(off))
				if len(st.hist) > 64 {
					st.hist = st.hist[32:]
				}
			}
		}(i, rc)
	}

	<-doneWrite
	wg.Wait()
	close(stopToggle)
	recMu.Lock()
	final := contig
	recMu.Unlock()
	l.SetHighWatermark(final)
	// bounded liveness: every reader reaches the final HW
	deadline := time.Now().Add(20 * time.Second)
	for {
		all := true
		// readers that have consumed everything park in waitForHW
		time.Sleep(2 * time.Millisecond)
		l.mu.RLock()
		parked := len(l.hwWaiters)
		l.mu.RUnlock()
		if parked < len(c.Readers) {
			all = false
		}
		if all || time.Now().After(deadline) || fail.get() != nil {
			break
		}
	}
	cancel()
	rwg.Wait()
	close(stopSample)
	if f := fail.get(); f != nil {
		return f
	}
	for i, st := range states {
		if !st.started && st.start > st.h1 && st.h1 >= final {
			continue // created beyond the final HW: positioned at HW+1, nothing to deliver
		}
		if final >= 0 && st.next != final+1 {
			return vfutil.Failf("C03/committed-message-not-delivered/bounded-liveness(20s)", "reader %d stopped at next offset %d, final HW %d (started=%v); history %v", i, st.next, final, st.started, tailS(st.hist))
		}
	}
	if int64(total) != final+1 {
		return vfutil.Failf("C03/append-count", "appended %d messages but the log ends at %d", total, final)
	}
	segs := len(l.Segments())
	if segs > 1 {
		o.Label("rolled")
	}
	if mp := atomic.LoadInt32(&maxParked); mp >= 2 {
		o.Label("parked>=2")
		if segs > 1 {
			o.NonTrivial()
		}
	}
	if c.Toggle > 0 {
		o.Label("readonly-toggles")
	}
	o.Count("messages", total)
	return nil
}

func tailS(h []string) []string {
	if len(h) > 12 {
		return h[len(h)-12:]
	}
	return h
}

func TestVerifC03b(t *testing.T) {
	vfutil.Run(t, vfutil.Spec[c03bCase]{ID: "C03", Gen: genC03b, Run: runC03b})
}
