//go:build verif

package commitlog

import (
	"strings"
	"testing"

	"github.com/liftbridge-io/liftbridge/server/vfutil"
	"pgregory.net/rapid"
)

func genLimitSel(t *rapid.T, label string) (cut, d int) {
	if rapid.IntRange(0, 2).Draw(t, label+"on") == 0 {
		return -1, 0
	}
	return rapid.IntRange(0, 11).Draw(t, label+"cut"), rapid.SampledFrom([]int{-1, 0, 1, -1, 0, 1, 2, 3}).Draw(t, label+"d")
}

func genCleanOp(t *rapid.T, compact, retention bool) clOp {
	op := clOp{Op: "clean", BytesCut: -1, MsgsCut: -1, AgeCut: -1, Compact: compact}
	if retention {
		op.BytesCut, op.BytesD = genLimitSel(t, "bytes")
		op.MsgsCut, op.MsgsD = genLimitSel(t, "msgs")
		op.AgeCut, op.AgeD = genLimitSel(t, "age")
	}
	if compact {
		op.Workers = rapid.SampledFrom([]int{1, 2, 4, 10}).Draw(t, "workers")
	}
	if retention && !compact && rapid.IntRange(0, 5).Draw(t, "fault") == 0 {
		// an earlier cleaning cycle in which one segment could not be deleted
		op.Fault = rapid.IntRange(1, 6).Draw(t, "victim")
		return op
	}
	if op.AgeCut >= 0 && rapid.IntRange(0, 2).Draw(t, "during") == 0 {
		// messages appended while the clean is running (may roll a segment)
		op.Msgs = genBatch(t, compact, 4)
		for j := range op.Msgs {
			if op.Msgs[j].V > 2048 {
				op.Msgs[j].V = 100
			}
		}
	}
	return op
}

// C09: layout first, then cleans with limits placed around the layout's
// cumulative sums, optionally more appends (new rolls) and further cleans.
func genC09(t *rapid.T) clCase {
	c := clCase{Flavor: "C09", MaxSeg: rapid.SampledFrom([]int64{1, 64, 150, 300, 300, 1024}).Draw(t, "maxseg")}
	rounds := rapid.IntRange(1, 3).Draw(t, "rounds")
	for r := 0; r < rounds; r++ {
		na := rapid.IntRange(1, 18).Draw(t, "nappend")
		if r > 0 {
			na = rapid.IntRange(0, 6).Draw(t, "nappend")
		}
		for i := 0; i < na; i++ {
			b := genBatch(t, false, 3)
			if rapid.IntRange(0, 5).Draw(t, "skew") == 0 {
				// a new leader whose clock is behind: the timestamps go back, so a
				// fresh segment can precede an expired one
				b[0].EB = true
				b[0].DT = -int64(rapid.SampledFrom([]int{1, 5, 40, 900}).Draw(t, "skewby"))
			}
			c.Ops = append(c.Ops, clOp{Op: "append", Msgs: b})
		}
		if rapid.IntRange(0, 5).Draw(t, "reopen") == 0 {
			c.Ops = append(c.Ops, clOp{Op: "reopen"})
		}
		if rapid.IntRange(0, 3).Draw(t, "hw") == 0 {
			c.Ops = append(c.Ops, clOp{Op: "sethw", Sel: rapid.IntRange(0, 1000).Draw(t, "sel")})
		}
		c.Ops = append(c.Ops, genCleanOp(t, false, true))
		if rapid.IntRange(0, 3).Draw(t, "again") == 0 {
			c.Ops = append(c.Ops, genCleanOp(t, false, true))
		}
	}
	return c
}

// C08: keyed messages with run-length bias, HW anywhere, compaction with a
// generated number of workers, repeated, optionally combined with retention.
func genC08(t *rapid.T) clCase {
	c := clCase{Flavor: "C08", MaxSeg: rapid.SampledFrom([]int64{1, 64, 150, 150, 300, 300, 1024}).Draw(t, "maxseg")}
	rounds := rapid.IntRange(1, 3).Draw(t, "rounds")
	for r := 0; r < rounds; r++ {
		na := rapid.IntRange(2, 25).Draw(t, "nappend")
		if r > 0 {
			na = rapid.IntRange(0, 8).Draw(t, "nappend")
		}
		for i := 0; i < na; i++ {
			b := genBatch(t, true, 4)
			if rapid.IntRange(0, 3).Draw(t, "run") == 0 { // a run of the same key
				for j := range b {
					b[j].K = b[0].K
				}
			}
			for j := range b { // compaction cases do not need large values
				if b[j].V > 100 {
					b[j].V = 30
				}
			}
			c.Ops = append(c.Ops, clOp{Op: "append", Msgs: b})
			if rapid.IntRange(0, 9).Draw(t, "hwmid") == 0 {
				c.Ops = append(c.Ops, clOp{Op: "sethw", Sel: rapid.IntRange(0, 1000).Draw(t, "sel")})
			}
		}
		if rapid.IntRange(0, 1).Draw(t, "hw") == 0 {
			c.Ops = append(c.Ops, clOp{Op: "sethw", Sel: rapid.IntRange(0, 1000).Draw(t, "sel")})
		}
		if rapid.IntRange(0, 5).Draw(t, "reopen") == 0 {
			c.Ops = append(c.Ops, clOp{Op: "reopen"})
		}
		// committed readers that have delivered part of the log are parked across
		// the clean and continue afterwards
		parked := rapid.Bool().Draw(t, "parked")
		if parked {
			nr := rapid.IntRange(1, 3).Draw(t, "nreaders")
			for i := 0; i < nr; i++ {
				c.Ops = append(c.Ops, clOp{Op: "newreader", Cls: rapid.IntRange(0, 5).Draw(t, "rcls"), Sel: rapid.IntRange(0, 1000).Draw(t, "rsel")},
					clOp{Op: "read", Sel: i, N: rapid.IntRange(0, 6).Draw(t, "rn")})
			}
		}
		c.Ops = append(c.Ops, genCleanOp(t, true, rapid.IntRange(0, 3).Draw(t, "withret") == 0))
		if parked {
			c.Ops = append(c.Ops, clOp{Op: "read", Sel: rapid.IntRange(0, 2).Draw(t, "r1"), N: rapid.IntRange(1, 4).Draw(t, "rn1")})
		}
		nrep := rapid.IntRange(0, 2).Draw(t, "repeat")
		for i := 0; i < nrep; i++ {
			if rapid.Bool().Draw(t, "hwbetween") {
				c.Ops = append(c.Ops, clOp{Op: "sethw", Sel: rapid.IntRange(0, 1000).Draw(t, "sel")})
			}
			c.Ops = append(c.Ops, genCleanOp(t, true, false))
			if parked {
				c.Ops = append(c.Ops, clOp{Op: "read", Sel: rapid.IntRange(0, 2).Draw(t, "r2"), N: rapid.IntRange(1, 6).Draw(t, "rn2")})
			}
		}
		if parked {
			for i := 0; i < 3; i++ {
				c.Ops = append(c.Ops, clOp{Op: "read", Sel: i, N: 40})
			}
		}
	}
	return c
}

func runCLFlavor(c clCase, o *vfutil.Obs) *vfutil.Failure {
	var xx *clExec
	f := runCL(c, o, func(x *clExec, op clOp) (*vfutil.Failure, bool) { xx = x; return nil, false })
	if xx != nil && xx.nt {
		o.NonTrivial()
	}
	return f
}

func TestVerifC09(t *testing.T) {
	vfutil.Run(t, vfutil.Spec[clCase]{ID: "C09", Gen: genC09, Run: runCLFlavor, Summary: clSummary})
}

// runParked is runCL plus committed readers parked across cleans (operations
// newreader/read, shared with C03a); prefix names the flavour in signatures.
func runParked(c clCase, o *vfutil.Obs, prefix string) (*clExec, *vfutil.Failure) {
	var xx *clExec
	var readers []*c03Reader
	nt := false
	hook := c03Hook(&readers, &nt, o)
	f := runCL(c, o, func(x *clExec, op clOp) (*vfutil.Failure, bool) {
		xx = x
		if op.Op != "newreader" && op.Op != "read" {
			return nil, false
		}
		f, handled := hook(x, op)
		if f != nil && strings.HasPrefix(f.Signature, "C03/") {
			f.Signature = prefix + "/parked-committed-reader/" + strings.TrimPrefix(f.Signature, "C03/")
		}
		return f, handled
	})
	return xx, f
}

func runC08(c clCase, o *vfutil.Obs) *vfutil.Failure {
	xx, f := runParked(c, o, "C08")
	if xx != nil && xx.nt {
		o.NonTrivial()
	}
	return f
}

func TestVerifC08(t *testing.T) {
	vfutil.Run(t, vfutil.Spec[clCase]{ID: "C08", Gen: genC08, Run: runC08, Summary: clSummary})
}

// C10 (package-level part): committed readers on retention-trimmed and
// compacted logs with the HW anywhere, from every start offset, forward and
// reverse (the reader constructions partition.Subscribe uses).
func genC10cl(t *rapid.T) clCase {
	c := clCase{Flavor: "C10", MaxSeg: rapid.SampledFrom([]int64{1, 64, 150, 300, 1024}).Draw(t, "maxseg")}
	rounds := rapid.IntRange(1, 3).Draw(t, "rounds")
	for r := 0; r < rounds; r++ {
		na := rapid.IntRange(1, 14).Draw(t, "nappend")
		for i := 0; i < na; i++ {
			b := genBatch(t, true, 3)
			for j := range b {
				if b[j].V > 100 {
					b[j].V = 30
				}
			}
			c.Ops = append(c.Ops, clOp{Op: "append", Msgs: b})
		}
		if rapid.IntRange(0, 3).Draw(t, "hw") != 0 {
			c.Ops = append(c.Ops, clOp{Op: "sethw", Sel: rapid.IntRange(0, 1000).Draw(t, "sel")})
		}
		if rapid.IntRange(0, 3).Draw(t, "split") == 0 {
			c.Ops = append(c.Ops, clOp{Op: "split"})
		}
		for i, n := 0, rapid.IntRange(0, 3).Draw(t, "nts"); i < n; i++ {
			c.Ops = append(c.Ops, clOp{Op: "tslookup", Cls: rapid.IntRange(0, 2).Draw(t, "tscls"), Sel: rapid.IntRange(0, 1000).Draw(t, "tssel")})
		}
		// a subscription that has delivered part of the log while it is cleaned
		parked := rapid.Bool().Draw(t, "parked")
		if parked {
			nr := rapid.IntRange(1, 2).Draw(t, "nreaders")
			for i := 0; i < nr; i++ {
				c.Ops = append(c.Ops, clOp{Op: "newreader", Cls: rapid.IntRange(0, 5).Draw(t, "rcls"), Sel: rapid.IntRange(0, 1000).Draw(t, "rsel")},
					clOp{Op: "read", Sel: r*2 + i, N: rapid.IntRange(0, 5).Draw(t, "rn")})
			}
		}
		if rapid.IntRange(0, 2).Draw(t, "clean") != 0 {
			c.Ops = append(c.Ops, genCleanOp(t, rapid.Bool().Draw(t, "compact"), rapid.IntRange(0, 3).Draw(t, "ret") != 0))
		}
		if parked {
			c.Ops = append(c.Ops, clOp{Op: "read", Sel: rapid.IntRange(0, 5).Draw(t, "r1"), N: rapid.IntRange(1, 8).Draw(t, "rn1")})
		}
		for i, n := 0, rapid.IntRange(0, 3).Draw(t, "nts2"); i < n; i++ {
			c.Ops = append(c.Ops, clOp{Op: "tslookup", Cls: rapid.IntRange(0, 2).Draw(t, "tscls"), Sel: rapid.IntRange(0, 1000).Draw(t, "tssel")})
		}
		if rapid.IntRange(0, 3).Draw(t, "ro") == 0 {
			c.Ops = append(c.Ops, clOp{Op: "readonly", N: rapid.IntRange(0, 1).Draw(t, "on")})
		}
	}
	return c
}

func runC10cl(c clCase, o *vfutil.Obs) *vfutil.Failure {
	xx, f := runParked(c, o, "C10")
	if xx != nil && (xx.sparse || xx.trimmed) && xx.m.HW < xx.m.newest() {
		o.NonTrivial()
	}
	return f
}

func TestVerifC10cl(t *testing.T) {
	vfutil.Run(t, vfutil.Spec[clCase]{ID: "C10", Gen: genC10cl, Run: runC10cl, Summary: clSummary})
}

// C02e: the leader-epoch history a replica keeps next to its log is what log
// reconciliation after a leader change is computed from (the follower names its
// last epoch, the leader answers with where that epoch ends). Retention and
// compaction trim that history, a reopen reloads it: after every step it must
// still map every retained message to the epoch the message was written in.
// Same operations and model as C09, with leader changes (epoch bumps) in a
// third of the appends; failures are reported for C02.
func genC02e(t *rapid.T) clCase {
	c := genC09(t)
	c.Sig = "C02"
	for i := range c.Ops {
		if c.Ops[i].Op == "append" && len(c.Ops[i].Msgs) > 0 && rapid.IntRange(0, 2).Draw(t, "bump") == 0 {
			c.Ops[i].Msgs[0].EB = true
		}
	}
	if rapid.IntRange(0, 2).Draw(t, "reopen-last") == 0 {
		c.Ops = append(c.Ops, clOp{Op: "reopen"})
	}
	return c
}

func runC02e(c clCase, o *vfutil.Obs) *vfutil.Failure {
	var xx *clExec
	f := runCL(c, o, func(x *clExec, op clOp) (*vfutil.Failure, bool) { xx = x; return nil, false })
	bumps := 0
	for _, op := range c.Ops {
		for _, m := range op.Msgs {
			if m.EB {
				bumps++
			}
		}
	}
	// non-trivial: at least two leader epochs in the log and a clean that removed something
	if f == nil && xx != nil && bumps >= 2 && xx.nt {
		o.NonTrivial()
	}
	return f
}

func TestVerifC02e(t *testing.T) {
	vfutil.Run(t, vfutil.Spec[clCase]{ID: "C02", Gen: genC02e, Run: runC02e, Summary: clSummary})
}
