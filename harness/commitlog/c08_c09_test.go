//go:build verif

package commitlog

import (
	"testing"

	"github.com/liftbridge-io/liftbridge/server/vfutil"
	"pgregory.net/rapid"
)

func genLimitSel(t *rapid.T, label string) (cut, d int) {
	if rapid.IntRange(0, 2).Draw(t, label+"on") == 0 {
		return -1, 0
	}
	return rapid.IntRange(0, 11).Draw(t, label+"cut"), rapid.SampledFrom([]int{-1, 0, 1, -1, 0, 1, 2, 3}).Draw(t, label+"d")
}

func genCleanOp(t *rapid.T, compact, retention bool) clOp {
	op := clOp{Op: "clean", BytesCut: -1, MsgsCut: -1, AgeCut: -1, Compact: compact}
	if retention {
		op.BytesCut, op.BytesD = genLimitSel(t, "bytes")
		op.MsgsCut, op.MsgsD = genLimitSel(t, "msgs")
		op.AgeCut, op.AgeD = genLimitSel(t, "age")
	}
	if compact {
		op.Workers = rapid.SampledFrom([]int{1, 2, 4, 10}).Draw(t, "workers")
	}
	if op.AgeCut >= 0 && rapid.IntRange(0, 2).Draw(t, "during") == 0 {
		// messages appended while the clean is running (may roll a segment)
		op.Msgs = genBatch(t, compact, 4)
		for j := range op.Msgs {
			if op.Msgs[j].V > 2048 {
				op.Msgs[j].V = 100
			}
		}
	}
	return op
}

// C09: layout first, then cleans with limits placed around the layout's
// cumulative sums, optionally more appends (new rolls) and further cleans.
func genC09(t *rapid.T) clCase {
	c := clCase{Flavor: "C09", MaxSeg: rapid.SampledFrom([]int64{1, 64, 150, 300, 300, 1024}).Draw(t, "maxseg")}
	rounds := rapid.IntRange(1, 3).Draw(t, "rounds")
	for r := 0; r < rounds; r++ {
		na := rapid.IntRange(1, 18).Draw(t, "nappend")
		if r > 0 {
			na = rapid.IntRange(0, 6).Draw(t, "nappend")
		}
		for i := 0; i < na; i++ {
			c.Ops = append(c.Ops, clOp{Op: "append", Msgs: genBatch(t, false, 3)})
		}
		if rapid.IntRange(0, 5).Draw(t, "reopen") == 0 {
			c.Ops = append(c.Ops, clOp{Op: "reopen"})
		}
		if rapid.IntRange(0, 3).Draw(t, "hw") == 0 {
			c.Ops = append(c.Ops, clOp{Op: "sethw", Sel: rapid.IntRange(0, 1000).Draw(t, "sel")})
		}
		c.Ops = append(c.Ops, genCleanOp(t, false, true))
		if rapid.IntRange(0, 3).Draw(t, "again") == 0 {
			c.Ops = append(c.Ops, genCleanOp(t, false, true))
		}
	}
	return c
}

// C08: keyed messages with run-length bias, HW anywhere, compaction with a
// generated number of workers, repeated, optionally combined with retention.
func genC08(t *rapid.T) clCase {
	c := clCase{Flavor: "C08", MaxSeg: rapid.SampledFrom([]int64{1, 64, 150, 150, 300, 300, 1024}).Draw(t, "maxseg")}
	rounds := rapid.IntRange(1, 3).Draw(t, "rounds")
	for r := 0; r < rounds; r++ {
		na := rapid.IntRange(2, 25).Draw(t, "nappend")
		if r > 0 {
			na = rapid.IntRange(0, 8).Draw(t, "nappend")
		}
		for i := 0; i < na; i++ {
			b := genBatch(t, true, 4)
			if rapid.IntRange(0, 3).Draw(t, "run") == 0 { // a run of the same key
				for j := range b {
					b[j].K = b[0].K
				}
			}
			for j := range b { // compaction cases do not need large values
				if b[j].V > 100 {
					b[j].V = 30
				}
			}
			c.Ops = append(c.Ops, clOp{Op: "append", Msgs: b})
			if rapid.IntRange(0, 9).Draw(t, "hwmid") == 0 {
				c.Ops = append(c.Ops, clOp{Op: "sethw", Sel: rapid.IntRange(0, 1000).Draw(t, "sel")})
			}
		}
		if rapid.IntRange(0, 1).Draw(t, "hw") == 0 {
			c.Ops = append(c.Ops, clOp{Op: "sethw", Sel: rapid.IntRange(0, 1000).Draw(t, "sel")})
		}
		if rapid.IntRange(0, 5).Draw(t, "reopen") == 0 {
			c.Ops = append(c.Ops, clOp{Op: "reopen"})
		}
		c.Ops = append(c.Ops, genCleanOp(t, true, rapid.IntRange(0, 3).Draw(t, "withret") == 0))
		nrep := rapid.IntRange(0, 2).Draw(t, "repeat")
		for i := 0; i < nrep; i++ {
			if rapid.Bool().Draw(t, "hwbetween") {
				c.Ops = append(c.Ops, clOp{Op: "sethw", Sel: rapid.IntRange(0, 1000).Draw(t, "sel")})
			}
			c.Ops = append(c.Ops, genCleanOp(t, true, false))
		}
	}
	return c
}

func runCLFlavor(c clCase, o *vfutil.Obs) *vfutil.Failure {
	var xx *clExec
	f := runCL(c, o, func(x *clExec, op clOp) (*vfutil.Failure, bool) { xx = x; return nil, false })
	if xx != nil && xx.nt {
		o.NonTrivial()
	}
	return f
}

func TestVerifC09(t *testing.T) {
	vfutil.Run(t, vfutil.Spec[clCase]{ID: "C09", Gen: genC09, Run: runCLFlavor, Summary: clSummary})
}

func TestVerifC08(t *testing.T) {
	vfutil.Run(t, vfutil.Spec[clCase]{ID: "C08", Gen: genC08, Run: runCLFlavor, Summary: clSummary})
}

// C10 (package-level part): committed readers on retention-trimmed and
// compacted logs with the HW anywhere, from every start offset, forward and
// reverse (the reader constructions partition.Subscribe uses).
func genC10cl(t *rapid.T) clCase {
	c := clCase{Flavor: "C10", MaxSeg: rapid.SampledFrom([]int64{1, 64, 150, 300, 1024}).Draw(t, "maxseg")}
	rounds := rapid.IntRange(1, 3).Draw(t, "rounds")
	for r := 0; r < rounds; r++ {
		na := rapid.IntRange(1, 14).Draw(t, "nappend")
		for i := 0; i < na; i++ {
			b := genBatch(t, true, 3)
			for j := range b {
				if b[j].V > 100 {
					b[j].V = 30
				}
			}
			c.Ops = append(c.Ops, clOp{Op: "append", Msgs: b})
		}
		if rapid.IntRange(0, 3).Draw(t, "hw") != 0 {
			c.Ops = append(c.Ops, clOp{Op: "sethw", Sel: rapid.IntRange(0, 1000).Draw(t, "sel")})
		}
		if rapid.IntRange(0, 3).Draw(t, "split") == 0 {
			c.Ops = append(c.Ops, clOp{Op: "split"})
		}
		for i, n := 0, rapid.IntRange(0, 3).Draw(t, "nts"); i < n; i++ {
			c.Ops = append(c.Ops, clOp{Op: "tslookup", Cls: rapid.IntRange(0, 2).Draw(t, "tscls"), Sel: rapid.IntRange(0, 1000).Draw(t, "tssel")})
		}
		if rapid.IntRange(0, 2).Draw(t, "clean") != 0 {
			c.Ops = append(c.Ops, genCleanOp(t, rapid.Bool().Draw(t, "compact"), rapid.IntRange(0, 3).Draw(t, "ret") != 0))
		}
		for i, n := 0, rapid.IntRange(0, 3).Draw(t, "nts2"); i < n; i++ {
			c.Ops = append(c.Ops, clOp{Op: "tslookup", Cls: rapid.IntRange(0, 2).Draw(t, "tscls"), Sel: rapid.IntRange(0, 1000).Draw(t, "tssel")})
		}
		if rapid.IntRange(0, 3).Draw(t, "ro") == 0 {
			c.Ops = append(c.Ops, clOp{Op: "readonly", N: rapid.IntRange(0, 1).Draw(t, "on")})
		}
	}
	return c
}

func runC10cl(c clCase, o *vfutil.Obs) *vfutil.Failure {
	var xx *clExec
	f := runCL(c, o, func(x *clExec, op clOp) (*vfutil.Failure, bool) { xx = x; return nil, false })
	if xx != nil && (xx.sparse || xx.trimmed) && xx.m.HW < xx.m.newest() {
		o.NonTrivial()
	}
	return f
}

func TestVerifC10cl(t *testing.T) {
	vfutil.Run(t, vfutil.Spec[clCase]{ID: "C10", Gen: genC10cl, Run: runC10cl, Summary: clSummary})
}
