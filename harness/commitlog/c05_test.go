//go:build verif

package commitlog

import (
	"bufio"
	"crypto/sha1"
	"encoding/hex"
	"encoding/json"
	"fmt"
	"os"
	"os/exec"
	"path/filepath"
	"sort"
	"strconv"
	"strings"
	"syscall"
	"testing"
	"time"

	pkgErrors "github.com/pkg/errors"

	"github.com/liftbridge-io/liftbridge/server/vfutil"
	"pgregory.net/rapid"
)

// C05: crash recovery. A workload (the C01/C08/C09 operation alphabet) runs in a
// child process (this test binary re-executed) which is SIGKILLed by a crash
// point hook between two file-system effects; the parent then opens what the
// child left behind and checks it against the child's journal.

type c05Case struct {
	Work  clCase `json:"work"`
	Hit   int    `json:"hit"`            // which crash-point hit of the workload kills the child (selector)
	Point string `json:"point,omitempty"` // replay files may pin the point and occurrence directly
	Occ   int    `json:"occ,omitempty"`
	Tail  []clOp `json:"tail"` // operations performed on the recovered log
}

func genC05Work(t *rapid.T) clCase {
	c := clCase{Flavor: "C05", MaxSeg: rapid.SampledFrom([]int64{1, 150, 150, 300, 300, 1024}).Draw(t, "maxseg")}
	n := rapid.IntRange(3, 22).Draw(t, "nops")
	for i := 0; i < n; i++ {
		switch rapid.SampledFrom([]string{"append", "append", "append", "append", "appendset", "truncate", "clean", "clean", "sethw", "sethw", "reopen", "checkpoint"}).Draw(t, "op") {
		case "append":
			b := genBatch(t, true, 4)
			for j := range b {
				if b[j].V > 2048 {
					b[j].V = 60
				}
			}
			c.Ops = append(c.Ops, clOp{Op: "append", Msgs: b})
		case "appendset":
			b := genBatch(t, true, 3)
			for j := range b {
				if b[j].V > 2048 {
					b[j].V = 60
				}
			}
			c.Ops = append(c.Ops, clOp{Op: "appendset", Msgs: b})
		case "truncate":
			c.Ops = append(c.Ops, clOp{Op: "truncate", Cls: rapid.IntRange(0, 4).Draw(t, "cls"), Sel: rapid.IntRange(0, 1000).Draw(t, "sel")})
		case "clean":
			op := genCleanOp(t, rapid.Bool().Draw(t, "compact"), rapid.IntRange(0, 2).Draw(t, "ret") != 0)
			op.Msgs = nil
			op.Fault = 0 // crashes are the fault here: no failing deletions on top (C09 has those)
			c.Ops = append(c.Ops, op)
		case "sethw":
			c.Ops = append(c.Ops, clOp{Op: "sethw", Sel: rapid.IntRange(0, 1000).Draw(t, "sel")})
		case "reopen":
			c.Ops = append(c.Ops, clOp{Op: "reopen"})
		case "checkpoint":
			c.Ops = append(c.Ops, clOp{Op: "checkpoint"})
		}
	}
	return c
}

func genC05(t *rapid.T) c05Case {
	c := c05Case{Work: genC05Work(t), Hit: rapid.IntRange(0, 100000).Draw(t, "hit")}
	nt := rapid.IntRange(1, 4).Draw(t, "ntail")
	for i := 0; i < nt; i++ {
		switch rapid.SampledFrom([]string{"append", "append", "reopen", "truncate", "clean"}).Draw(t, "tail") {
		case "append":
			b := genBatch(t, true, 3)
			for j := range b {
				if b[j].V > 2048 {
					b[j].V = 60
				}
			}
			c.Tail = append(c.Tail, clOp{Op: "append", Msgs: b})
		case "reopen":
			c.Tail = append(c.Tail, clOp{Op: "reopen"})
		case "truncate":
			c.Tail = append(c.Tail, clOp{Op: "truncate", Sel: rapid.IntRange(0, 1000).Draw(t, "sel")})
		case "clean":
			c.Tail = append(c.Tail, clOp{Op: "clean", Compact: rapid.Bool().Draw(t, "compact")})
		}
	}
	return c
}

// ---- journal

type c05Entry struct {
	O int64  `json:"o"`
	H string `json:"h"`
	E uint64 `json:"e"`
}

type c05Snap struct {
	Msgs     []c05Entry `json:"msgs"`
	HW       int64      `json:"hw"`
	MaxEpoch uint64     `json:"maxepoch"`
}

type c05Line struct {
	T    string   `json:"t"` // begin | end | fail | done
	I    int      `json:"i"`
	Op   string   `json:"op,omitempty"`
	Pre  *c05Snap `json:"pre,omitempty"`
	Pred *c05Snap `json:"pred,omitempty"`
	Msg  string   `json:"msg,omitempty"`
}

func c05Hash(key, val []byte, hdr map[string][]byte, ts int64, epoch uint64) string {
	h := sha1.New()
	fmt.Fprintf(h, "%v|%d|%q|%v|%d|%q|%d|%d|", key == nil, len(key), key, val == nil, len(val), val, ts, epoch)
	ks := make([]string, 0, len(hdr))
	for k := range hdr {
		ks = append(ks, k)
	}
	sort.Strings(ks)
	for _, k := range ks {
		fmt.Fprintf(h, "%q=%q;", k, hdr[k])
	}
	return hex.EncodeToString(h.Sum(nil)[:10])
}

func c05SnapOf(x *clExec) *c05Snap {
	s := &c05Snap{HW: x.m.HW, MaxEpoch: x.maxEpoch}
	for _, m := range x.m.all() {
		s.Msgs = append(s.Msgs, c05Entry{O: m.Off, H: c05Hash(m.Key, m.Val, m.Hdr, m.TS, m.Epoch), E: m.Epoch})
	}
	return s
}

// c05Hook adds the "checkpoint" operation to the executor.
func c05Hook(x *clExec, op clOp) (*vfutil.Failure, bool) {
	if op.Op != "checkpoint" {
		return nil, false
	}
	x.l.mu.RLock()
	err := x.l.checkpointHW()
	x.l.mu.RUnlock()
	if err != nil {
		return vfutil.Failf("C05/checkpoint-error", "%v", err), true
	}
	return nil, true
}

// TestVerifC05Child is the crashing child. It runs every operation first on a
// shadow log with the crash points suspended (which yields the predicted state
// after the operation) and then on the real log.
func TestVerifC05Child(t *testing.T) {
	caseFile := os.Getenv("VERIF_CHILD_CASE")
	if caseFile == "" {
		t.Skip("not a child")
	}
	raw, err := os.ReadFile(caseFile)
	if err != nil {
		os.Exit(4)
	}
	var work clCase
	if err := json.Unmarshal(raw, &work); err != nil {
		os.Exit(4)
	}
	jf, err := os.OpenFile(os.Getenv("VERIF_CHILD_JOURNAL"), os.O_CREATE|os.O_WRONLY|os.O_APPEND, 0644)
	if err != nil {
		os.Exit(4)
	}
	write := func(l c05Line) {
		b, _ := json.Marshal(l)
		jf.Write(append(b, '\n'))
	}
	fail := func(msg string) {
		write(c05Line{T: "fail", Msg: msg})
		os.Exit(3)
	}
	dir := os.Getenv("VERIF_CHILD_DIR")
	crashSuspend(true)
	shadow, f := newCLExec(work, nil, dir+".shadow")
	if f != nil {
		fail("shadow: " + f.Message)
	}
	crashSuspend(false)
	realx, f := newCLExec(work, nil, dir)
	if f != nil {
		fail(f.Message)
	}
	for i, op := range work.Ops {
		pre := c05SnapOf(realx)
		crashSuspend(true)
		if f := shadow.doOp(i, op, c05Hook); f != nil {
			fail("shadow: " + f.Signature + ": " + f.Message)
		}
		crashSuspend(false)
		write(c05Line{T: "begin", I: i, Op: op.Op, Pre: pre, Pred: c05SnapOf(shadow)})
		if f := realx.doOp(i, op, c05Hook); f != nil {
			fail(f.Signature + ": " + f.Message)
		}
		write(c05Line{T: "end", I: i})
	}
	write(c05Line{T: "done"})
	// leave without closing anything: the parent treats a finished child like a
	// crash after the last operation
	os.Exit(0)
}

// runChild runs the workload in a child process.
func c05RunChild(dir string, work clCase, crash string, countFile string) (lines []c05Line, killed bool, out string, err error) {
	caseFile := dir + ".case.json"
	journal := dir + ".journal"
	os.Remove(journal)
	raw, _ := json.Marshal(work)
	if err := os.WriteFile(caseFile, raw, 0o644); err != nil {
		return nil, false, "", err
	}
	bin := os.Getenv("VERIF_BIN")
	if bin == "" {
		bin = os.Args[0]
	}
	cmd := exec.Command(bin, "-test.run", "^TestVerifC05Child$", "-test.timeout", "120s")
	cmd.Env = append(os.Environ(), "VERIF_CHILD_CASE="+caseFile, "VERIF_CHILD_DIR="+dir, "VERIF_CHILD_JOURNAL="+journal, "VERIF_MODE=child", "VERIF_OUT=")
	if crash != "" {
		cmd.Env = append(cmd.Env, "VERIF_CRASH="+crash)
	}
	if countFile != "" {
		cmd.Env = append(cmd.Env, "VERIF_CRASH_COUNT="+countFile)
	}
	b, runErr := cmd.CombinedOutput()
	out = string(b)
	if ee, ok := runErr.(*exec.ExitError); ok {
		if ws, ok := ee.Sys().(syscall.WaitStatus); ok && ws.Signaled() && ws.Signal() == syscall.SIGKILL {
			killed = true
		}
	}
	f, e := os.Open(journal)
	if e != nil {
		return nil, killed, out, e
	}
	defer f.Close()
	sc := bufio.NewScanner(f)
	sc.Buffer(make([]byte, 1<<20), 64<<20)
	for sc.Scan() {
		var l c05Line
		if json.Unmarshal(sc.Bytes(), &l) == nil {
			lines = append(lines, l)
		}
	}
	if !killed && runErr != nil {
		return lines, killed, out, runErr
	}
	return lines, killed, out, nil
}

type c05Hit struct {
	Name string
	Occ  int
}

func c05CountHits(root string, work clCase) ([]c05Hit, *vfutil.Failure) {
	dir := filepath.Join(root, "count")
	countFile := filepath.Join(root, "hits.txt")
	lines, _, out, err := c05RunChild(dir, work, "", countFile)
	if err != nil {
		for _, l := range lines {
			if l.T == "fail" {
				// the workload itself violates a commit-log property without any crash: C01/C08/C09 territory
				return nil, vfutil.Failf("harness/workload-fails-without-crash", "%s", l.Msg)
			}
		}
		return nil, vfutil.Failf("harness/child", "counting run failed: %v\n%s", err, tailStr(out, 2000))
	}
	b, _ := os.ReadFile(countFile)
	occ := map[string]int{}
	var hits []c05Hit
	for _, n := range strings.Fields(string(b)) {
		occ[n]++
		hits = append(hits, c05Hit{n, occ[n]})
	}
	os.RemoveAll(dir)
	os.RemoveAll(dir + ".shadow")
	return hits, nil
}

func tailStr(s string, n int) string {
	if len(s) > n {
		return s[len(s)-n:]
	}
	return s
}

// c05Judge crashes the workload at (point, occ) and checks the recovery.
func c05Judge(root string, work clCase, hit c05Hit, tail []clOp, o *vfutil.Obs) *vfutil.Failure {
	dir := filepath.Join(root, "crash")
	os.RemoveAll(dir)
	os.RemoveAll(dir + ".shadow")
	lines, killed, out, err := c05RunChild(dir, work, fmt.Sprintf("%s:%d", hit.Name, hit.Occ), "")
	defer os.RemoveAll(dir + ".shadow")
	defer os.RemoveAll(dir)
	if err != nil {
		for _, l := range lines {
			if l.T == "fail" {
				return vfutil.Failf("harness/workload-fails-without-crash", "%s", l.Msg)
			}
		}
		return vfutil.Failf("harness/child", "crash run failed: %v\n%s", err, tailStr(out, 2000))
	}
	if !killed {
		return vfutil.Failf("harness/child-not-killed", "crash point %s:%d was not reached", hit.Name, hit.Occ)
	}
	// ---- what the journal says
	var begin *c05Line
	lastEnd := -1
	for i := range lines {
		switch lines[i].T {
		case "begin":
			begin = &lines[i]
		case "end":
			lastEnd = lines[i].I
		}
	}
	var must, may map[int64]c05Entry
	var hwBound int64 = -1
	var maxEpoch uint64 = 1
	inflight := "none"
	set := func(s *c05Snap) map[int64]c05Entry {
		m := map[int64]c05Entry{}
		for _, e := range s.Msgs {
			m[e.O] = e
		}
		return m
	}
	switch {
	case begin == nil: // killed while creating the log
		must, may = map[int64]c05Entry{}, map[int64]c05Entry{}
		inflight = "open"
	case begin.I == lastEnd: // killed between two operations (e.g. inside verify): the state after the op
		must, may = set(begin.Pred), set(begin.Pred)
		hwBound = begin.Pred.HW
		maxEpoch = begin.Pred.MaxEpoch
	default:
		pre, pred := set(begin.Pre), set(begin.Pred)
		must, may = map[int64]c05Entry{}, map[int64]c05Entry{}
		for o2, e := range pre {
			may[o2] = e
			if p, ok := pred[o2]; ok && p.H == e.H {
				must[o2] = e
			}
		}
		for o2, e := range pred {
			if _, ok := may[o2]; !ok {
				may[o2] = e
			}
		}
		hwBound = begin.Pre.HW
		if begin.Pred.HW > hwBound {
			hwBound = begin.Pred.HW
		}
		maxEpoch = begin.Pred.MaxEpoch
		inflight = begin.Op
	}
	desc := fmt.Sprintf("workload %s killed at %s (occurrence %d) during operation %q", c05WorkString(work), hit.Name, hit.Occ, inflight)
	o.Label("killed-in:" + inflight)
	o.Label("point:" + hit.Name)
	if inflight != "none" {
		o.NonTrivial()
	}
	// ---- 1. reopening succeeds
	var l *commitLog
	openErr := func() (err error) {
		defer func() {
			if r := recover(); r != nil {
				err = fmt.Errorf("panic: %v", r)
			}
		}()
		l, err = openLog(dir, work.MaxSeg, nil)
		return err
	}()
	if openErr != nil {
		return vfutil.Failf("C05/reopen-fails/"+hit.Name, "%s: commitlog.New on the directory the crash left behind failed: %v (files: %v)", desc, openErr, listDir(dir))
	}
	defer func() {
		if l != nil {
			l.Close()
		}
	}()
	// ---- 2./3. read back
	got, rerr := c05ReadBack(l, len(may)+5)
	if rerr != nil {
		return vfutil.Failf("C05/read-back-fails/"+hit.Name, "%s: %v", desc, rerr)
	}
	seen := map[int64]bool{}
	prev := int64(-1)
	var gotOffs []int64
	for _, g := range got {
		gotOffs = append(gotOffs, g.Off)
		if g.Off <= prev {
			cls := "not-increasing"
			if seen[g.Off] {
				cls = "duplicate-offset"
			}
			return vfutil.Failf("C05/"+cls+"/"+hit.Name, "%s: the recovered log reads offsets %v", desc, gotOffs)
		}
		prev = g.Off
		seen[g.Off] = true
		e, ok := may[g.Off]
		if !ok {
			return vfutil.Failf("C05/phantom-message/"+hit.Name, "%s: the recovered log holds offset %d which was never appended (or had been removed before the crash); offsets read %v", desc, g.Off, gotOffs)
		}
		if h := c05Hash(g.Key, g.Val, g.Hdr, g.TS, g.Epoch); h != e.H {
			return vfutil.Failf("C05/message-modified/"+hit.Name, "%s: offset %d changed", desc, g.Off)
		}
	}
	// Without compaction a log never has offset gaps (C01), and retention only
	// removes whole segments from the oldest end (C09): whatever instant the
	// process died at, what is left must be one contiguous run of offsets.
	compacts := false
	for _, op := range work.Ops {
		if op.Op == "clean" && op.Compact {
			compacts = true
		}
	}
	if !compacts {
		for i := 1; i < len(gotOffs); i++ {
			if gotOffs[i] != gotOffs[i-1]+1 {
				return vfutil.Failf("C05/hole-in-recovered-log/"+hit.Name, "%s: no compaction was ever run on this log, yet the recovered log reads offsets %v (offset %d is missing between older and newer messages; files %v)", desc, gotOffs, gotOffs[i-1]+1, listDir(dir))
			}
		}
		o.Label("recovered-log-checked-gap-free")
	}
	var missing []int64
	for o2 := range must {
		if !seen[o2] {
			missing = append(missing, o2)
		}
	}
	if len(missing) > 0 {
		sort.Slice(missing, func(i, j int) bool { return missing[i] < missing[j] })
		return vfutil.Failf("C05/completed-append-lost/"+hit.Name, "%s: offsets %v were appended before the crash (and not being removed) but are gone; offsets read %v", desc, missing, gotOffs)
	}
	// ---- 4. HW
	if hw := l.HighWatermark(); hw > hwBound {
		return vfutil.Failf("C05/hw-above-pre-crash/"+hit.Name, "%s: recovered HW %d, before the crash at most %d", desc, hw, hwBound)
	}
	// ---- 5. epoch cache
	var newestEpoch uint64
	if len(got) > 0 {
		newestEpoch = got[len(got)-1].Epoch
	}
	if s := epochCacheInvariant(l, newestEpoch, len(got) > 0, maxEpoch); s != "" {
		return vfutil.Failf("C05/epoch-history/"+hit.Name, "%s: %s", desc, s)
	}
	if nw := l.NewestOffset(); len(got) > 0 && nw != got[len(got)-1].Off {
		return vfutil.Failf("C05/newest-offset-disagrees/"+hit.Name, "%s: NewestOffset()=%d but the last readable offset is %d", desc, nw, got[len(got)-1].Off)
	}
	// ---- 6. the log stays usable
	if f := c05Tail(&l, dir, work, got, tail, desc, hit.Name); f != nil {
		return f
	}
	return nil
}

func listDir(dir string) []string {
	ents, _ := os.ReadDir(dir)
	var out []string
	for _, e := range ents {
		fi, _ := e.Info()
		sz := int64(-1)
		if fi != nil {
			sz = fi.Size()
		}
		out = append(out, fmt.Sprintf("%s(%d)", e.Name(), sz))
	}
	return out
}

func c05ReadBack(l *commitLog, max int) (got []gotMsg, err error) {
	defer func() {
		if r := recover(); r != nil {
			err = fmt.Errorf("panic while reading the recovered log: %v", r)
		}
	}()
	if l.NewestOffset() < 0 {
		return nil, nil
	}
	start := l.OldestOffset()
	if start < 0 {
		start = 0
	}
	g, openErr, _ := readForward(l, start, true, max+1000)
	if openErr != nil && pkgErrors.Cause(openErr) != ErrSegmentNotFound {
		return nil, openErr
	}
	return g, nil
}

// c05Tail performs further operations on the recovered log: appended messages
// get the next offsets, and the whole log keeps reading back as what was there
// plus what was appended, across reopen, truncate and clean.
func c05Tail(lp **commitLog, dir string, work clCase, base []gotMsg, tail []clOp, desc, point string) *vfutil.Failure {
	l := *lp
	type rec struct {
		off int64
		h   string
	}
	var cur []rec
	for _, g := range base {
		cur = append(cur, rec{g.Off, c05Hash(g.Key, g.Val, g.Hdr, g.TS, g.Epoch)})
	}
	b := newCLBuilder()
	b.ts = 1 << 40 // after everything the workload wrote
	b.epoch = 1 << 20
	check := func(what string, exact bool) *vfutil.Failure {
		got, err := c05ReadBack(l, len(cur))
		if err != nil {
			return vfutil.Failf("C05/unusable-after-recovery/read/"+point, "%s; then %s: %v", desc, what, err)
		}
		prev := int64(-1)
		idx := map[int64]string{}
		for _, r := range cur {
			idx[r.off] = r.h
		}
		var offs []int64
		for _, g := range got {
			offs = append(offs, g.Off)
		}
		n := 0
		for _, g := range got {
			if g.Off <= prev {
				return vfutil.Failf("C05/unusable-after-recovery/duplicate-or-unordered/"+point, "%s; then %s: the log reads offsets %v", desc, what, offs)
			}
			prev = g.Off
			h, ok := idx[g.Off]
			if !ok {
				return vfutil.Failf("C05/unusable-after-recovery/phantom/"+point, "%s; then %s: offset %d appeared; offsets %v", desc, what, g.Off, offs)
			}
			if h != c05Hash(g.Key, g.Val, g.Hdr, g.TS, g.Epoch) {
				return vfutil.Failf("C05/unusable-after-recovery/modified/"+point, "%s; then %s: offset %d changed", desc, what, g.Off)
			}
			n++
		}
		if exact && n != len(cur) {
			var want []int64
			for _, r := range cur {
				want = append(want, r.off)
			}
			return vfutil.Failf("C05/unusable-after-recovery/lost/"+point, "%s; then %s: the log reads offsets %v, want %v", desc, what, offs, want)
		}
		return nil
	}
	for i, op := range tail {
		what := fmt.Sprintf("tail op %d (%s)", i, op.Op)
		switch op.Op {
		case "append":
			msgs := b.build(op.Msgs)
			next := l.NewestOffset() + 1
			type res struct {
				o   []int64
				err error
			}
			ch := make(chan res, 1)
			go func() {
				defer func() {
					if r := recover(); r != nil {
						ch <- res{nil, fmt.Errorf("panic: %v", r)}
					}
				}()
				o2, err := l.Append(toProto(msgs))
				ch <- res{o2, err}
			}()
			var offs []int64
			var err error
			select {
			case r := <-ch:
				offs, err = r.o, r.err
			case <-time.After(20 * time.Second):
				c05Hung = true // the spinning goroutine cannot be stopped: do not run further cases in this process
				return vfutil.Failf("C05/unusable-after-recovery/append-hangs/"+point, "%s; then %s: Append did not return within 20 s (files %v)", desc, what, listDir(dir))
			}
			if err != nil {
				return vfutil.Failf("C05/unusable-after-recovery/append/"+point, "%s; then %s failed: %v", desc, what, err)
			}
			for j, o2 := range offs {
				if o2 != next+int64(j) {
					return vfutil.Failf("C05/unusable-after-recovery/append-offsets/"+point, "%s; then %s returned offsets %v, want consecutive from %d", desc, what, offs, next)
				}
				cur = append(cur, rec{o2, c05Hash(msgs[j].Key, msgs[j].Val, msgs[j].Hdr, msgs[j].TS, msgs[j].Epoch)})
			}
			if f := check(what, true); f != nil {
				return f
			}
		case "reopen":
			l.Close()
			nl, err := openLog(dir, work.MaxSeg, nil)
			if err != nil {
				return vfutil.Failf("C05/unusable-after-recovery/reopen/"+point, "%s; then %s failed: %v", desc, what, err)
			}
			l = nl
			*lp = nl
			if f := check(what, true); f != nil {
				return f
			}
		case "truncate":
			if len(cur) == 0 {
				continue
			}
			lo := l.HighWatermark() + 1
			var cands []int64
			for _, r := range cur {
				if r.off >= lo {
					cands = append(cands, r.off)
				}
			}
			if len(cands) == 0 {
				continue
			}
			at := cands[abs(op.Sel)%len(cands)]
			if err := l.Truncate(at); err != nil {
				return vfutil.Failf("C05/unusable-after-recovery/truncate/"+point, "%s; then Truncate(%d) failed: %v", desc, at, err)
			}
			keep := cur[:0]
			for _, r := range cur {
				if r.off < at {
					keep = append(keep, r)
				}
			}
			cur = keep
			if f := check(fmt.Sprintf("%s at %d", what, at), true); f != nil {
				return f
			}
		case "clean":
			l.Close()
			nl, err := openLog(dir, work.MaxSeg, func(o *Options) { o.Compact = op.Compact; o.MaxLogMessages = 6 })
			if err != nil {
				return vfutil.Failf("C05/unusable-after-recovery/reopen/"+point, "%s; then %s failed: %v", desc, what, err)
			}
			l = nl
			*lp = nl
			if err := l.Clean(); err != nil {
				return vfutil.Failf("C05/unusable-after-recovery/clean/"+point, "%s; then %s failed: %v", desc, what, err)
			}
			// what a clean removes is C08/C09's business; here: nothing new, nothing changed, still ordered
			if f := check(what, false); f != nil {
				return f
			}
			got, _ := c05ReadBack(l, len(cur))
			cur = cur[:0]
			for _, g := range got {
				cur = append(cur, rec{g.Off, c05Hash(g.Key, g.Val, g.Hdr, g.TS, g.Epoch)})
			}
		}
	}
	return nil
}

func c05WorkString(w clCase) string {
	var ops []string
	for _, op := range w.Ops {
		s := op.Op
		if op.Op == "append" || op.Op == "appendset" {
			s += strconv.Itoa(len(op.Msgs))
		}
		ops = append(ops, s)
	}
	return fmt.Sprintf("[maxseg %d: %s]", w.MaxSeg, strings.Join(ops, " "))
}

var c05Hung bool

func runC05(c c05Case, o *vfutil.Obs) *vfutil.Failure {
	if c05Hung {
		return nil
	}
	root := vfutil.TempDir("c05")
	defer os.RemoveAll(root)
	hit := c05Hit{c.Point, c.Occ}
	if c.Point == "" {
		hits, f := c05CountHits(root, c.Work)
		if f != nil {
			return f
		}
		if len(hits) == 0 {
			return nil
		}
		hit = hits[c.Hit%len(hits)]
		o.Count("crash_points_in_workload", len(hits))
	}
	return c05Judge(root, c.Work, hit, c.Tail, o)
}

func TestVerifC05(t *testing.T) {
	if os.Getenv("VERIF_CHILD_CASE") != "" {
		t.Skip("child process")
	}
	vfutil.Run(t, vfutil.Spec[c05Case]{ID: "C05", Gen: genC05, Run: runC05})
}

// TestVerifC05Enum: for every generated workload, every crash point hit is tried
// (fault enumeration).
type c05EnumCase struct {
	Work clCase `json:"work"`
	Tail []clOp `json:"tail"`
}

func TestVerifC05Enum(t *testing.T) {
	if os.Getenv("VERIF_CHILD_CASE") != "" {
		t.Skip("child process")
	}
	vfutil.Run(t, vfutil.Spec[c05EnumCase]{ID: "C05",
		Gen: func(t *rapid.T) c05EnumCase {
			c := genC05(t)
			return c05EnumCase{Work: c.Work, Tail: c.Tail}
		},
		Run: func(c c05EnumCase, o *vfutil.Obs) *vfutil.Failure {
			root := vfutil.TempDir("c05e")
			defer os.RemoveAll(root)
			hits, f := c05CountHits(root, c.Work)
			if f != nil {
				return f
			}
			for _, h := range hits {
				if f := c05Judge(root, c.Work, h, c.Tail, o); f != nil {
					return f
				}
			}
			o.Count("crashes", len(hits))
			if len(hits) > 0 {
				o.NonTrivial()
			}
			return nil
		}})
}

// ---- crash units of C08 and C09 ------------------------------------------
//
// The same child-process machinery, with workloads that end in the clean the
// property is about and with the kill restricted to the crash points inside
// that clean: every hit of every such point is tried. What C08/C09 promise
// about a clean must also hold for the log a restart finds when the process
// died inside it: compaction - every message that had to survive is there,
// unchanged, at its offset (the journal's Must set); retention - what is left
// is a contiguous suffix.

func genCrashWork(t *rapid.T, compact bool) c05EnumCase {
	c := clCase{Flavor: "C05", MaxSeg: rapid.SampledFrom([]int64{1, 150, 150, 300}).Draw(t, "maxseg")}
	na := rapid.IntRange(4, 14).Draw(t, "nappend")
	for i := 0; i < na; i++ {
		b := genBatch(t, true, 3)
		for j := range b {
			if b[j].V > 100 {
				b[j].V = 30
			}
			if compact && b[j].K > 3 {
				b[j].K = 1 + b[j].K%3 // few keys: most messages are superseded
			}
		}
		c.Ops = append(c.Ops, clOp{Op: "append", Msgs: b})
		if rapid.IntRange(0, 7).Draw(t, "reopen") == 0 {
			c.Ops = append(c.Ops, clOp{Op: "reopen"})
		}
	}
	c.Ops = append(c.Ops, clOp{Op: "sethw", Sel: rapid.SampledFrom([]int{999, 999, 0, 3, 500}).Draw(t, "hw")})
	if rapid.Bool().Draw(t, "hw2") {
		c.Ops = append(c.Ops, clOp{Op: "sethw", Sel: 999})
	}
	op := genCleanOp(t, compact, !compact || rapid.IntRange(0, 3).Draw(t, "withret") == 0)
	op.Msgs, op.Fault = nil, 0
	c.Ops = append(c.Ops, op)
	if rapid.Bool().Draw(t, "again") {
		op2 := genCleanOp(t, compact, !compact)
		op2.Msgs, op2.Fault = nil, 0
		c.Ops = append(c.Ops, clOp{Op: "append", Msgs: genBatch(t, true, 2)}, op2)
	}
	e := c05EnumCase{Work: c}
	e.Tail = append(e.Tail, clOp{Op: "reopen"}, clOp{Op: "clean", Compact: compact}, clOp{Op: "append", Msgs: []clMsgSpec{{K: 1, V: 20, H: -1}}})
	return e
}

func runCrashUnit(prefix string, points []string) func(c c05EnumCase, o *vfutil.Obs) *vfutil.Failure {
	return func(c c05EnumCase, o *vfutil.Obs) *vfutil.Failure {
		root := vfutil.TempDir("c05x")
		defer os.RemoveAll(root)
		hits, f := c05CountHits(root, c.Work)
		if f != nil {
			return f
		}
		tried := 0
		for _, h := range hits {
			in := false
			for _, p := range points {
				if strings.HasPrefix(h.Name, p) {
					in = true
				}
			}
			if !in {
				continue
			}
			tried++
			if f := c05Judge(root, c.Work, h, c.Tail, o); f != nil {
				if strings.HasPrefix(f.Signature, "C05/") {
					f.Signature = prefix + strings.TrimPrefix(f.Signature, "C05/")
				}
				return f
			}
		}
		o.Count("crashes", tried)
		if tried > 0 {
			o.NonTrivial()
		}
		return nil
	}
}

func TestVerifC08Crash(t *testing.T) {
	if os.Getenv("VERIF_CHILD_CASE") != "" {
		t.Skip("child process")
	}
	vfutil.Run(t, vfutil.Spec[c05EnumCase]{ID: "C08",
		Gen: func(t *rapid.T) c05EnumCase { return genCrashWork(t, true) },
		Run: runCrashUnit("C08/crash-inside-compaction/", []string{"compact.", "replace.", "clean.", "segment-delete.", "retention."})})
}

func TestVerifC09Crash(t *testing.T) {
	if os.Getenv("VERIF_CHILD_CASE") != "" {
		t.Skip("child process")
	}
	vfutil.Run(t, vfutil.Spec[c05EnumCase]{ID: "C09",
		Gen: func(t *rapid.T) c05EnumCase { return genCrashWork(t, false) },
		Run: runCrashUnit("C09/crash-inside-retention/", []string{"retention.", "segment-delete.", "clean."})})
}
