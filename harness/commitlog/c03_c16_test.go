//go:build verif

package commitlog

import (
	"context"
	"fmt"
	"testing"
	"time"

	pkgErrors "github.com/pkg/errors"

	"github.com/liftbridge-io/liftbridge/server/vfutil"
	"pgregory.net/rapid"
)

// ------------------------------------------------------------------ C16a: OCC

func genC16a(t *rapid.T) clCase {
	c := clCase{Flavor: "C16", OCC: true, MaxSeg: rapid.SampledFrom([]int64{1, 150, 300, 1024, 0}).Draw(t, "maxseg")}
	n := rapid.IntRange(1, 30).Draw(t, "nops")
	for i := 0; i < n; i++ {
		switch rapid.IntRange(0, 9).Draw(t, "op") {
		case 0:
			c.Ops = append(c.Ops, clOp{Op: "reopen"})
		case 1:
			c.Ops = append(c.Ops, clOp{Op: "probe", Cls: rapid.IntRange(0, 5).Draw(t, "cls"), Sel: rapid.IntRange(0, 100).Draw(t, "sel"), Unc: true})
		default:
			m := genMsgSpec(t, false)
			if m.V > 2048 {
				m.V = 100
			}
			m.Exp = rapid.SampledFrom([]int{0, 1, 1, 1, 2, 3, 4, 5}).Draw(t, "exp")
			c.Ops = append(c.Ops, clOp{Op: "occ", Msgs: []clMsgSpec{m}})
		}
	}
	return c
}

func runC16a(c clCase, o *vfutil.Obs) *vfutil.Failure {
	accepted, rejected, rejectThenAccept := 0, 0, false
	f := runCL(c, o, func(x *clExec, op clOp) (*vfutil.Failure, bool) {
		if op.Op != "occ" {
			return nil, false
		}
		next := x.m.next()
		var e int64
		switch op.Msgs[0].Exp {
		case 0:
			e = -1
		case 1:
			e = next
		case 2:
			e = next - 1
		case 3:
			e = next + 1
		case 4:
			e = 0
		default:
			e = 1 << 40
		}
		msgs := x.b.build(op.Msgs)
		x.noteEpochs(msgs)
		p := toProto(msgs)
		p[0].Offset = e
		// a full active segment is rolled before the offset check; the model
		// mirrors that (it does not change the log's contents)
		want := e == -1 || e == next
		offs, err := x.l.Append(p)
		if x.m.rollIfFull() {
			x.o.Label("roll")
		}
		o.Label(fmt.Sprintf("expected:%d", op.Msgs[0].Exp))
		if want {
			if err != nil {
				cls := "matching-offset"
				if e == -1 {
					cls = "waived"
				}
				return vfutil.Failf("C16/rejected/"+cls, "step %d: Append with expected offset %d at next offset %d failed: %v", x.step, e, next, err), true
			}
			if len(offs) != 1 || offs[0] != next {
				return vfutil.Failf("C16/stored-elsewhere", "step %d: Append with expected offset %d stored at %v, next offset was %d", x.step, e, offs, next), true
			}
			a := x.m.active()
			msgs[0].Off = next
			a.Msgs = append(a.Msgs, msgs[0])
			a.Bytes += msgs[0].Size
			accepted++
			if rejected > 0 {
				rejectThenAccept = true
			}
			return nil, true
		}
		rejected++
		if err == nil {
			return vfutil.Failf("C16/accepted-wrong-offset", "step %d: Append with expected offset %d was stored at %v although the next offset was %d", x.step, e, offs, next), true
		}
		if pkgErrors.Cause(err) != ErrIncorrectOffset {
			return vfutil.Failf("C16/wrong-error", "step %d: Append with expected offset %d (next %d) failed with %v, want ErrIncorrectOffset", x.step, e, next, err), true
		}
		// "the log is unchanged" is checked by verify(): contents, offsets, file sizes
		return nil, true
	})
	if rejectThenAccept && accepted >= 2 {
		o.NonTrivial()
	}
	return f
}

func TestVerifC16a(t *testing.T) {
	vfutil.Run(t, vfutil.Spec[clCase]{ID: "C16", Gen: genC16a, Run: runC16a, Summary: clSummary})
}

// ----------------------------------------------- C03a: sequential interleaving

type c03Reader struct {
	log       *commitLog // the log object the reader was created on (readers do not survive a reopen)
	r         *Reader
	start     int64
	next      int64 // next offset the model expects this reader to deliver
	blockedAt int64 // HW value at which it last blocked (-2 never)
	delivered int
}

func genC03a(t *rapid.T) clCase {
	c := clCase{Flavor: "C03", MaxSeg: rapid.SampledFrom([]int64{1, 64, 150, 150, 300, 300, 1024}).Draw(t, "maxseg")}
	n := rapid.IntRange(2, 60).Draw(t, "nops")
	for i := 0; i < n; i++ {
		switch rapid.SampledFrom([]string{"append", "append", "append", "sethw", "sethw", "sethw", "newreader", "newreader", "read", "read", "read", "read", "read", "readonly", "parkro"}).Draw(t, "op") {
		case "parkro":
			c.Ops = append(c.Ops, clOp{Op: "parkro"})
		case "append":
			b := genBatch(t, false, 4)
			for j := range b {
				if b[j].V > 100 {
					b[j].V = 40
				}
			}
			c.Ops = append(c.Ops, clOp{Op: "append", Msgs: b})
		case "sethw":
			// Cls 1: land exactly on the last message of a segment, 2: on the
			// first message of a segment, 0: anywhere
			c.Ops = append(c.Ops, clOp{Op: "sethw2", Cls: rapid.IntRange(0, 3).Draw(t, "cls"), Sel: rapid.IntRange(0, 1000).Draw(t, "sel")})
		case "newreader":
			c.Ops = append(c.Ops, clOp{Op: "newreader", Cls: rapid.IntRange(0, 5).Draw(t, "cls"), Sel: rapid.IntRange(0, 1000).Draw(t, "sel")})
		case "read":
			c.Ops = append(c.Ops, clOp{Op: "read", Sel: rapid.IntRange(0, 7).Draw(t, "reader"), N: rapid.IntRange(1, 5).Draw(t, "n")})
		case "readonly":
			c.Ops = append(c.Ops, clOp{Op: "readonly", N: rapid.IntRange(0, 1).Draw(t, "on")})
		}
	}
	return c
}

func runC03a(c clCase, o *vfutil.Obs) *vfutil.Failure {
	var readers []*c03Reader
	nt := false
	f := runCL(c, o, c03Hook(&readers, &nt, o))
	if nt {
		o.NonTrivial()
	}
	return f
}

// c03Hook executes the operations on long-lived committed readers (sethw2,
// newreader, read). It is shared with the C01 flavour, which parks readers
// across appends and HW moves.
func c03Hook(readersP *[]*c03Reader, ntP *bool, o *vfutil.Obs) func(x *clExec, op clOp) (*vfutil.Failure, bool) {
	return func(x *clExec, op clOp) (*vfutil.Failure, bool) {
		readers := *readersP
		nt := *ntP
		defer func() { *readersP = readers; *ntP = nt }()
		switch op.Op {
		case "sethw2":
			if op.Cls == 3 {
				// a lower value (a follower is handed its new leader's HW, which
				// may lag its own): the HW must not move back
				if x.m.HW < 0 {
					return nil, true
				}
				lower := x.m.HW - 1 - int64(abs(op.Sel))%(x.m.HW+1)
				x.l.SetHighWatermark(lower)
				if after := x.l.HighWatermark(); after != x.m.HW {
					return vfutil.Failf("C03/hw-decreased", "step %d: SetHighWatermark(%d) moved the HW from %d to %d", x.step, lower, x.m.HW, after), true
				}
				o.Label("sethw-lower-ignored")
				return nil, true
			}
			if x.m.newest() <= x.m.HW {
				return nil, true
			}
			var cands []int64
			for _, s := range x.m.Segs {
				if len(s.Msgs) == 0 {
					continue
				}
				var v int64
				if op.Cls == 1 {
					v = s.Msgs[len(s.Msgs)-1].Off
				} else if op.Cls == 2 {
					v = s.Msgs[0].Off
				} else {
					continue
				}
				if v > x.m.HW {
					cands = append(cands, v)
				}
			}
			var h int64
			if len(cands) > 0 {
				h = cands[abs(op.Sel)%len(cands)]
				if op.Cls == 1 {
					o.Label("hw-on-segment-end")
				} else {
					o.Label("hw-on-segment-start")
				}
			} else {
				h = x.m.HW + 1 + int64(abs(op.Sel))%(x.m.newest()-x.m.HW)
			}
			before := x.l.HighWatermark()
			x.l.SetHighWatermark(h)
			x.m.HW = h
			if after := x.l.HighWatermark(); after < before {
				return vfutil.Failf("C03/hw-decreased", "step %d: HW went from %d to %d", x.step, before, after), true
			}
			return nil, true
		case "parksplit":
			// an uncommitted reader (what a follower's replication is served from)
			// is blocked at the end of the log while the cleaner loop rolls a new,
			// still empty, active segment; what is appended afterwards must reach it
			// without a gap
			if x.m.Readonly || x.m.newest() < 0 || len(x.m.active().Msgs) == 0 || len(op.Msgs) == 0 {
				return nil, true
			}
			// (readers are created at an offset that exists, as the replicator does;
			// this one first delivers the newest message and then blocks)
			newest := x.m.newest()
			r, err := x.l.NewReader(newest, true)
			if err != nil {
				return vfutil.Failf("C03/reader-open-error", "step %d: NewReader(%d,uncommitted): %v", x.step, newest, err), true
			}
			ctx, cancel := context.WithTimeout(context.Background(), 60*time.Second)
			defer cancel()
			want := len(op.Msgs) + 1
			type res struct {
				offs []int64
				err  error
			}
			done := make(chan res, 1)
			go func() {
				var offs []int64
				hb := make([]byte, 28)
				for len(offs) < want {
					_, off, _, _, err := r.ReadMessage(ctx, hb)
					if err != nil {
						done <- res{offs, err}
						return
					}
					offs = append(offs, off)
				}
				done <- res{offs, nil}
			}()
			old := x.l.activeSegment()
			parked := false
			// (a reader at the end of a segment that is already full does not
			// register as a waiter: it polls until the next segment appears)
			for until := time.Now().Add(time.Second); !parked && time.Now().Before(until); {
				old.RLock()
				parked = len(old.waiters) > 0
				full := old.position >= old.maxBytes
				old.RUnlock()
				if full {
					time.Sleep(2 * time.Millisecond)
					o.Label("uncommitted-reader-polling-at-end-of-full-segment")
					break
				}
				if !parked {
					time.Sleep(50 * time.Microsecond)
				}
			}
			if f := x.apply(clOp{Op: "split"}); f != nil {
				return f, true
			}
			first := newest
			if f := x.apply(clOp{Op: "append", Msgs: op.Msgs}); f != nil {
				return f, true
			}
			if parked {
				o.Label("uncommitted-reader-parked-across-empty-roll")
			}
			select {
			case g := <-done:
				if g.err != nil {
					return vfutil.Failf("C03/uncommitted-reader-error", "step %d: reader blocked at the log end across a roll: got %v after offsets %v", x.step, g.err, g.offs), true
				}
				for i, off := range g.offs {
					if off != first+int64(i) {
						return vfutil.Failf("C03/delivered-wrong/order-or-duplicate", "step %d: an uncommitted reader blocked at the log end across a roll delivered offsets %v, want %d..%d", x.step, g.offs, first, first+int64(want)-1), true
					}
				}
			case <-time.After(20 * time.Second):
				return vfutil.Failf("C03/message-not-delivered/bounded-liveness(20s)", "step %d: an uncommitted reader blocked at the log end did not deliver offsets %d..%d appended after a roll", x.step, first, first+int64(want)-1), true
			}
			return nil, true
		case "parkro":
			// a committed reader that has caught up with the HW is blocked in
			// ReadMessage while the log is switched to read-only: it must end only
			// if nothing uncommitted remains
			if x.m.Readonly {
				return nil, true
			}
			r, err := x.l.NewReader(x.m.HW+1, false)
			if err != nil {
				return vfutil.Failf("C03/reader-open-error", "step %d: NewReader(%d,committed): %v", x.step, x.m.HW+1, err), true
			}
			ctx, cancel := context.WithTimeout(context.Background(), 20*time.Second)
			type res struct {
				off int64
				err error
			}
			done := make(chan res, 1)
			go func() {
				_, off, _, _, err := r.ReadMessage(ctx, make([]byte, 28))
				done <- res{off, err}
			}()
			// wait until it is parked
			parked := false
			for i := 0; i < 20000 && !parked; i++ {
				x.l.mu.RLock()
				parked = len(x.l.hwWaiters) > 0
				x.l.mu.RUnlock()
				if !parked {
					time.Sleep(50 * time.Microsecond)
				}
			}
			x.l.SetReadonly(true)
			uncommitted := x.m.HW < x.m.newest()
			var f *vfutil.Failure
			if parked && uncommitted {
				o.Label("readonly-while-reader-parked-below-log-end")
				select {
				case g := <-done:
					if g.err == nil {
						f = vfutil.Failf("C03/delivered-wrong/above-hw", "step %d: parked reader delivered offset %d with hw %d", x.step, g.off, x.m.HW)
					} else if pkgErrors.Cause(g.err) == ErrCommitLogReadonly {
						f = vfutil.Failf("C03/ended-instead-of-waiting", "step %d: a reader parked at hw %d was told the read-only log has ended although the log end is %d", x.step, x.m.HW, x.m.newest())
					}
				case <-time.After(3 * time.Millisecond):
				}
			} else if parked {
				o.Label("readonly-while-reader-parked-at-log-end")
				select {
				case g := <-done:
					if g.err == nil || pkgErrors.Cause(g.err) != ErrCommitLogReadonly {
						f = vfutil.Failf("C03/readonly-end", "step %d: reader parked at the end of the log (hw %d) got offset %d, %v when the log became read-only", x.step, x.m.HW, g.off, g.err)
					}
				case <-time.After(20 * time.Second):
					f = vfutil.Failf("C03/readonly-end/bounded-liveness(20s)", "step %d: reader parked at the end of the log (hw %d) was not released when the log became read-only", x.step, x.m.HW)
				}
			}
			cancel()
			x.l.SetReadonly(false)
			return f, true
		case "newreader":
			start, cls := x.startFor(op.Cls, op.Sel)
			if start < 0 {
				start = 0
			}
			r, err := x.l.NewReader(start, false)
			if err != nil {
				return vfutil.Failf("C03/reader-open-error", "step %d: NewReader(%d,committed) with hw %d newest %d failed: %v", x.step, start, x.m.HW, x.m.newest(), err), true
			}
			o.Label("newreader:" + cls)
			if start > x.m.HW {
				o.Label("reader-beyond-hw")
			}
			if x.m.newest() < 0 {
				o.Label("reader-on-empty-log")
			}
			// A committed reader created beyond the HW (or on an empty log) is
			// positioned at HW+1: "waits for the next message when the offset
			// exceeds the HW" (pinned by TestReaderCommittedCapOffset).
			next := start
			if start > x.m.HW || x.m.oldest() == -1 {
				next = x.m.HW + 1
				if start > x.m.HW+1 {
					o.Label("reader-start-capped-to-hw+1")
				}
			}
			readers = append(readers, &c03Reader{log: x.l, r: r, start: start, next: next, blockedAt: -2})
			return nil, true
		case "read":
			if len(readers) == 0 {
				return nil, true
			}
			// readers created on an earlier incarnation of the log, or positioned
			// in segments that retention has deleted since, are dropped
			live := readers[:0]
			for _, rd := range readers {
				if rd.log == x.l && !(x.trimmed && rd.next < x.m.oldest()) {
					live = append(live, rd)
				}
			}
			readers = live
			if len(readers) == 0 {
				return nil, true
			}
			rd := readers[op.Sel%len(readers)]
			hb := make([]byte, 28)
			for i := 0; i < op.N; i++ {
				// the next message at or after the reader's position (compaction
				// may have removed offsets in between)
				var want *mMsg
				for _, mm := range x.m.all() {
					if mm.Off >= rd.next {
						want = mm
						break
					}
				}
				avail := want != nil && want.Off <= x.m.HW
				if avail {
					if want.Off != rd.next {
						o.Label("parked-reader-skips-compacted-offsets")
					}
					rd.next = want.Off
					ctx, cancel := context.WithTimeout(context.Background(), 20*time.Second)
					m, off, ts, ep, err := rd.r.ReadMessage(ctx, hb)
					cancel()
					if err != nil {
						return vfutil.Failf("C03/committed-message-not-delivered", "step %d: reader started at %d, next %d <= hw %d, but ReadMessage failed: %v", x.step, rd.start, rd.next, x.m.HW, err), true
					}
					g := gotMsg{Off: off, TS: ts, Epoch: ep, Key: m.Key(), Val: m.Value(), Hdr: m.Headers()}
					if d := sameMsg(want, g); d != "" {
						cls := "content"
						if off != want.Off {
							cls = "order-or-duplicate"
						}
						if off > x.m.HW {
							cls = "above-hw"
						}
						return vfutil.Failf("C03/delivered-wrong/"+cls, "step %d: reader started at %d expected offset %d (hw %d): %s", x.step, rd.start, rd.next, x.m.HW, d), true
					}
					// crossed into a new segment right after having rested at the HW on the previous segment's end?
					for si, s := range x.m.Segs {
						if si > 0 && len(s.Msgs) > 0 && s.Msgs[0].Off == off && rd.blockedAt == off-1 {
							o.Label("crossed-segment-boundary-where-hw-rested")
							nt = true
						}
					}
					rd.next++
					rd.delivered++
					continue
				}
				// nothing committed at rd.next: the read must not deliver anything
				expectRO := x.m.Readonly && x.m.HW == x.m.newest() && rd.next > x.m.newest()
				var err error
				var off int64
				if expectRO {
					ctx, cancel := context.WithTimeout(context.Background(), 20*time.Second)
					_, off, _, _, err = rd.r.ReadMessage(ctx, hb)
					cancel()
				} else {
					_, off, _, _, err = rd.r.ReadMessage(cancelledCtx(), hb)
				}
				if err == nil {
					cls := "above-hw"
					if off <= x.m.HW {
						cls = "unexpected-offset"
					}
					return vfutil.Failf("C03/delivered-wrong/"+cls, "step %d: reader started at %d, next %d, hw %d, newest %d: ReadMessage delivered offset %d", x.step, rd.start, rd.next, x.m.HW, x.m.newest(), off), true
				}
				if !expectRO && pkgErrors.Cause(err) == ErrCommitLogReadonly {
					// the reader was told the log has ended although uncommitted
					// messages (or a writable log) remain: it would never deliver them
					return vfutil.Failf("C03/ended-instead-of-waiting", "step %d: reader started at %d, next %d, hw %d, newest %d, readonly %v: ReadMessage reported the end of a read-only log", x.step, rd.start, rd.next, x.m.HW, x.m.newest(), x.m.Readonly), true
				}
				if expectRO && pkgErrors.Cause(err) != ErrCommitLogReadonly {
					return vfutil.Failf("C03/readonly-end", "step %d: reader at the end of a read-only log got %v, want ErrCommitLogReadonly", x.step, err), true
				}
				rd.blockedAt = x.m.HW
				o.Label("reader-blocked-at-hw")
				break
			}
			return nil, true
		}
		return nil, false
	}
}

func TestVerifC03a(t *testing.T) {
	vfutil.Run(t, vfutil.Spec[clCase]{ID: "C03", Gen: genC03a, Run: runC03a, Summary: clSummary})
}
