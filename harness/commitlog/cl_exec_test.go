//go:build verif

package commitlog

import (
	"context"
	"fmt"
	"time"
	"os"
	"reflect"

	pkgErrors "github.com/pkg/errors"

	"github.com/liftbridge-io/liftbridge/server/vfutil"
)

// clExec executes a clCase against a real commit log and the reference model
// in lock step, checking the whole observable state after every operation.
type clExec struct {
	c        clCase
	o        *vfutil.Obs
	dir      string
	l        *commitLog
	m        *clModel
	b        *clBuilder
	maxEpoch uint64
	step     int
	maxSeg   int64
	workers  int
	compact  bool
	retBytes int64
	retMsgs  int64
	retAge   bool

	truncated      bool
	sawRoll        bool
	ntDetail       bool
	readers        []*c03Reader
	cleanedOnce    bool
	sparse         bool
	trimmed        bool
	lastCleanHW    int64
	hwAtBoundary   bool
	pendingFailure *vfutil.Failure
	nt             bool
}

func (x *clExec) options(o *Options) {
	o.MaxSegmentBytes = x.maxSeg
	o.ConcurrencyControl = x.c.OCC
	o.Compact = x.compact
	o.CompactMaxGoroutines = x.workers
	o.MaxLogBytes = x.retBytes
	o.MaxLogMessages = x.retMsgs
	if x.retAge {
		o.MaxLogAge = 1
	}
}

func (x *clExec) open() *vfutil.Failure {
	l, err := openLog(x.dir, x.maxSeg, x.options)
	if err != nil {
		return vfutil.Failf(x.c.Flavor+"/open-error", "step %d: commitlog.New failed: %v", x.step, err)
	}
	x.l = l
	x.l.SetReadonly(x.m.Readonly)
	return nil
}

func (x *clExec) close() {
	if x.l != nil {
		x.l.Close()
		x.l = nil
	}
}

// newCLExec opens a fresh log in dir and checks the initial state.
func newCLExec(c clCase, o *vfutil.Obs, dir string) (*clExec, *vfutil.Failure) {
	x := &clExec{c: c, o: o, dir: dir, b: newCLBuilder(), maxSeg: c.MaxSeg, workers: c.Workers, lastCleanHW: -2}
	x.b.skew = c.Flavor == "C09"
	x.m = newCLModel(c.MaxSeg)
	x.maxEpoch = 1
	if f := x.open(); f != nil {
		return nil, f
	}
	if f := x.verify("initial"); f != nil {
		x.close()
		return nil, f
	}
	return x, nil
}

// doOp applies one operation and verifies the whole state against the model.
func (x *clExec) doOp(i int, op clOp, hook func(x *clExec, op clOp) (*vfutil.Failure, bool)) *vfutil.Failure {
	x.step = i
	var f *vfutil.Failure
	handled := false
	if hook != nil {
		f, handled = hook(x, op)
	}
	if !handled {
		f = x.apply(op)
	}
	if f != nil {
		return f
	}
	return x.verify(fmt.Sprintf("after step %d (%s)", i, op.Op))
}

func runCL(c clCase, o *vfutil.Obs, hook func(x *clExec, op clOp) (*vfutil.Failure, bool)) (f *vfutil.Failure) {
	dir := vfutil.TempDir("cl")
	defer os.RemoveAll(dir)
	x, f := newCLExec(c, o, dir)
	if f != nil {
		return f
	}
	defer x.close()
	if hook != nil {
		hook(x, clOp{Op: "init"})
	}
	for i, op := range c.Ops {
		if f := x.doOp(i, op, hook); f != nil {
			return f
		}
	}
	return nil
}

func (x *clExec) sig(s string) string {
	if x.c.Sig != "" {
		return x.c.Sig + "/" + s
	}
	return x.c.Flavor + "/" + s
}

func (x *clExec) noteEpochs(msgs []*mMsg) {
	for _, m := range msgs {
		if m.Epoch > x.maxEpoch {
			x.maxEpoch = m.Epoch
		}
	}
}

func (x *clExec) apply(op clOp) *vfutil.Failure {
	switch op.Op {
	case "append", "appendset":
		if len(op.Msgs) == 0 {
			return nil
		}
		if x.m.Readonly && op.Op == "append" {
			_, err := x.l.Append(toProto(x.b.build(op.Msgs)))
			if err != ErrCommitLogReadonly {
				return vfutil.Failf(x.sig("readonly-append"), "step %d: Append on a read-only log returned %v", x.step, err)
			}
			return nil
		}
		msgs := x.b.build(op.Msgs)
		x.noteEpochs(msgs)
		first := x.m.next()
		var offs []int64
		var err error
		if op.Op == "append" {
			offs, err = x.l.Append(toProto(msgs))
		} else {
			// the bytes a follower receives: message sets copied verbatim from
			// the leader's log, starting at the follower's next offset
			ms, _, e := newMessageSetFromProto(first, 0, toProto(msgs), false)
			if e != nil {
				return vfutil.Failf("harness/encode", "%v", e)
			}
			offs, err = x.l.AppendMessageSet(ms)
			x.o.Label("op:appendset")
		}
		if err != nil {
			return vfutil.Failf(x.sig("append-error"), "step %d: %s failed: %v", x.step, op.Op, err)
		}
		rolled := x.m.appendMsgs(msgs)
		if rolled {
			x.sawRoll = true
			x.o.Label("roll")
			if op.Op == "appendset" {
				x.o.Label("appendset-after-roll")
				x.ntDetail = true
			}
		}
		if len(offs) != len(msgs) {
			return vfutil.Failf(x.sig("append-offsets"), "step %d: %s of %d messages returned %d offsets %v", x.step, op.Op, len(msgs), len(offs), offs)
		}
		for i, o := range offs {
			if o != first+int64(i) {
				return vfutil.Failf(x.sig("append-offsets"), "step %d: %s returned offsets %v, want consecutive from %d", x.step, op.Op, offs, first)
			}
		}
		if len(msgs) > 1 {
			x.o.Label("batch>1")
		}
	case "truncate":
		lo := x.m.HW + 1 // never below committed data (callers: truncateUncommitted / truncateToHW)
		if lo < 0 {
			lo = 0
		}
		hi := x.m.newest() + 2
		var cands []int64
		all := x.m.all()
		switch op.Cls % 5 {
		case 1: // strictly inside a batch
			for _, m := range all {
				if m.InPos > 0 && m.Off >= lo {
					cands = append(cands, m.Off)
				}
			}
		case 2: // a segment base (and the offsets around it)
			for _, s := range x.m.Segs {
				for _, d := range []int64{-1, 0, 1} {
					if v := s.Base + d; v >= lo && v <= hi {
						cands = append(cands, v)
					}
				}
			}
		case 3: // first message of a batch
			for _, m := range all {
				if m.InPos == 0 && m.Off >= lo {
					cands = append(cands, m.Off)
				}
			}
		case 4: // at or beyond the end
			cands = []int64{x.m.newest() + 1, x.m.newest() + 2}
		}
		if len(cands) == 0 {
			for v := lo; v <= hi; v++ {
				cands = append(cands, v)
			}
		}
		off := cands[abs(op.Sel)%len(cands)]
		if off < lo {
			off = lo
		}
		// classify before mutating the model
		if m := x.m.get(off); m != nil && m.InPos > 0 {
			x.o.Label("truncate-inside-batch")
			x.ntDetail = true
		}
		if err := x.l.Truncate(off); err != nil {
			return vfutil.Failf(x.sig("truncate-error"), "step %d: Truncate(%d) failed: %v", x.step, off, err)
		}
		oldNewest := x.m.newest()
		what := x.m.truncate(off)
		x.o.Label("truncate:" + what)
		if what == "at-segment-base" {
			x.ntDetail = true
		}
		if what != "noop" {
			x.truncated = true
		}
		want := oldNewest
		if off-1 < want {
			want = off - 1
		}
		if got := x.l.NewestOffset(); got != want {
			return vfutil.Failf(x.sig("truncate-newest"), "step %d: after Truncate(%d) NewestOffset()=%d, want %d", x.step, off, got, want)
		}
	case "reopen":
		x.close()
		if op.MaxSeg != 0 {
			x.maxSeg = op.MaxSeg
			x.m.MaxSeg = op.MaxSeg
		}
		if op.Workers != 0 {
			x.workers = op.Workers
		}
		if f := x.open(); f != nil {
			return f
		}
		x.o.Label("reopen")
		if x.truncated {
			x.o.Label("reopen-after-truncate")
			x.ntDetail = true
		}
	case "sethw":
		if x.m.newest() > x.m.HW {
			h := x.m.HW + 1 + int64(abs(op.Sel))%(x.m.newest()-x.m.HW)
			x.l.SetHighWatermark(h)
			x.m.HW = h
			x.o.Label("sethw")
		} else {
			// a non-advancing update must be ignored
			x.l.SetHighWatermark(x.m.HW - int64(abs(op.Sel)%3))
		}
	case "probe":
		return x.probe(op)
	case "clean":
		if f := x.clean(op); f != nil {
			return f
		}
		return x.checkAllReaders(fmt.Sprintf("step %d after Clean()", x.step), x.c.Flavor != "C09")
	case "split":
		// what the cleaner loop does when the active segment is due for a roll
		// (segment.max.age): a new, still empty, active segment
		if len(x.m.active().Msgs) == 0 {
			return nil
		}
		old := x.l.activeSegment()
		if err := x.l.split(old); err != nil {
			return vfutil.Failf(x.sig("split-error"), "step %d: %v", x.step, err)
		}
		old.Seal()
		x.m.Segs = append(x.m.Segs, &mSeg{Base: x.m.next()})
		x.m.Rolls++
		x.sawRoll = true
		x.o.Label("empty-active-segment")
	case "tslookup":
		return x.tsLookup(op)
	case "readonly":
		x.m.Readonly = op.N%2 == 1
		x.l.SetReadonly(x.m.Readonly)
		x.o.Label(fmt.Sprintf("readonly:%v", x.m.Readonly))
	default:
		return vfutil.Failf("harness/unknown-op", "op %q", op.Op)
	}
	return nil
}

func abs(i int) int {
	if i < 0 {
		return -i
	}
	return i
}

// tsLookup checks the two timestamp lookups against the model.
func (x *clExec) tsLookup(op clOp) *vfutil.Failure {
	all := x.m.all()
	var cands []int64
	var cls []string
	for i, m := range all {
		cands = append(cands, m.TS)
		cls = append(cls, "at-message")
		if i > 0 && all[i-1].TS+1 < m.TS {
			cands = append(cands, (all[i-1].TS+m.TS)/2)
			cls = append(cls, "between-messages")
		}
		if i > 0 && all[i-1].TS == m.TS {
			x.o.Label("equal-timestamps")
		}
	}
	cands = append(cands, 1, x.b.ts+1000)
	cls = append(cls, "before-first", "after-last")
	i := abs(op.Sel) % len(cands)
	if op.Cls%3 == 1 { // prefer segment boundaries: the first timestamp of a segment and the one just before it
		var b []int
		for si, s := range x.m.Segs {
			if si > 0 && len(s.Msgs) > 0 {
				for j, t := range cands {
					if t == s.Msgs[0].TS || t == s.Msgs[0].TS-1 {
						b = append(b, j)
					}
				}
			}
		}
		if len(b) > 0 {
			i = b[abs(op.Sel)%len(b)]
		}
	}
	t := cands[i]
	x.o.Label("tslookup:" + cls[i])
	wantE := x.m.newest() + 1
	for _, m := range all {
		if m.TS >= t {
			wantE = m.Off
			break
		}
	}
	gotE, err := x.l.EarliestOffsetAfterTimestamp(t)
	desc := fmt.Sprintf("step %d: timestamp %d on offsets %v with timestamps %v in segments %s", x.step, t, offsetsOf(all), tsOf(all), layoutString(x.m.Segs))
	if err != nil {
		return vfutil.Failf(x.sig("earliest-after-timestamp/error"), "%s: EarliestOffsetAfterTimestamp failed: %v (want %d)", desc, err, wantE)
	}
	if gotE != wantE {
		return vfutil.Failf(x.sig("earliest-after-timestamp/wrong"), "%s: EarliestOffsetAfterTimestamp=%d, want %d", desc, gotE, wantE)
	}
	wantL := int64(-1)
	for _, m := range all {
		if m.TS <= t {
			wantL = m.Off
		}
	}
	gotL, err := x.l.LatestOffsetBeforeTimestamp(t)
	if wantL == -1 {
		if err == nil {
			return vfutil.Failf(x.sig("latest-before-timestamp/no-error"), "%s: LatestOffsetBeforeTimestamp=%d but no message is that old", desc, gotL)
		}
		return nil
	}
	if err != nil {
		return vfutil.Failf(x.sig("latest-before-timestamp/error"), "%s: LatestOffsetBeforeTimestamp failed: %v (want %d)", desc, err, wantL)
	}
	if gotL != wantL {
		return vfutil.Failf(x.sig("latest-before-timestamp/wrong"), "%s: LatestOffsetBeforeTimestamp=%d, want %d", desc, gotL, wantL)
	}
	return nil
}

func tsOf(ms []*mMsg) []int64 {
	r := make([]int64, len(ms))
	for i, x := range ms {
		r[i] = x.TS
	}
	return r
}

// startFor resolves a reader start selector against the model.
func (x *clExec) startFor(cls, sel int) (int64, string) {
	newest := x.m.newest()
	sel = abs(sel)
	switch cls % 6 {
	case 1: // base of a non-first segment
		if len(x.m.Segs) > 1 {
			s := x.m.Segs[1+sel%(len(x.m.Segs)-1)]
			return s.Base, "segment-base"
		}
	case 2: // inside a non-first segment
		var c []int64
		for _, s := range x.m.Segs[1:] {
			for i, m := range s.Msgs {
				if i > 0 {
					c = append(c, m.Off)
				}
			}
		}
		if len(c) > 0 {
			return c[sel%len(c)], "inside-later-segment"
		}
	case 3: // around the high watermark
		if v := x.m.HW + int64(sel%3) - 1; v >= 0 {
			return v, "around-hw"
		}
		return 0, "around-hw"
	case 4: // at / beyond the end
		return newest + int64(sel%3), "at-or-beyond-end"
	case 5:
		return 0, "zero"
	}
	// Start offsets are never negative: Subscribe clamps them to 0 and the
	// replicator starts at (follower offset)+1 >= 0.
	span := newest + 4
	return int64(sel) % span, "any"
}

func (x *clExec) expectFrom(start int64, committed bool) []*mMsg {
	var want []*mMsg
	for _, m := range x.m.all() {
		if m.Off >= start && (!committed || m.Off <= x.m.HW) {
			want = append(want, m)
		}
	}
	return want
}

func (x *clExec) probe(op clOp) *vfutil.Failure {
	start, cls := x.startFor(op.Cls, op.Sel)
	x.o.Label("probe:" + cls)
	if cls == "inside-later-segment" || cls == "segment-base" {
		x.ntDetail = true
	}
	return x.checkForwardReader(start, !op.Unc, fmt.Sprintf("step %d probe", x.step))
}

func (x *clExec) checkForwardReader(start int64, committed bool, what string) *vfutil.Failure {
	want := x.expectFrom(start, committed)
	got, openErr, endErr := readForward(x.l, start, !committed, len(want)+3)
	desc := fmt.Sprintf("%s: forward reader from %d committed=%v (hw %d, newest %d)", what, start, committed, x.m.HW, x.m.newest())
	if openErr != nil {
		if len(want) == 0 && pkgErrors.Cause(openErr) == ErrSegmentNotFound {
			return nil
		}
		return vfutil.Failf(x.sig("reader-open-error"), "%s: NewReader failed: %v, want %d messages %v", desc, openErr, len(want), offsetsOf(want))
	}
	if f := compareSeq(x.sig("forward-reader"), desc, want, got); f != nil {
		return f
	}
	if endErr == nil {
		return vfutil.Failf(x.sig("forward-reader/extra"), "%s: reader kept returning messages beyond the expected %d", desc, len(want))
	}
	if committed && x.m.Readonly && x.m.HW == x.m.newest() && x.m.newest() >= 0 && start <= x.m.newest()+1 {
		if pkgErrors.Cause(endErr) != ErrCommitLogReadonly {
			// With the cancelled context both the read-only signal and the
			// cancellation are ready and select picks either; decide with a
			// live context (must answer promptly, nothing has to be waited for).
			endErr = x.endWithLiveContext(start, len(want))
		}
		if pkgErrors.Cause(endErr) != ErrCommitLogReadonly {
			return vfutil.Failf(x.sig("readonly-end"), "%s: end of a read-only log returned %v, want ErrCommitLogReadonly", desc, endErr)
		}
	}
	return nil
}

func (x *clExec) endWithLiveContext(start int64, n int) error {
	r, err := x.l.NewReader(start, false)
	if err != nil {
		return err
	}
	ctx, cancel := context.WithTimeout(context.Background(), 20*time.Second)
	defer cancel()
	hb := make([]byte, 28)
	for i := 0; i <= n; i++ {
		if _, _, _, _, err := r.ReadMessage(ctx, hb); err != nil {
			return err
		}
	}
	return nil
}

// verify compares every observable of the log with the model.
func (x *clExec) verify(when string) *vfutil.Failure {
	m, l := x.m, x.l
	if got, want := l.NewestOffset(), m.newest(); got != want {
		return vfutil.Failf(x.sig("newest-offset"), "%s: NewestOffset()=%d, model %d", when, got, want)
	}
	if got, want := l.OldestOffset(), m.oldest(); got != want {
		return vfutil.Failf(x.sig("oldest-offset"), "%s: OldestOffset()=%d, model %d", when, got, want)
	}
	if got := l.HighWatermark(); got != m.HW {
		return vfutil.Failf(x.sig("hw"), "%s: HighWatermark()=%d, model %d", when, got, m.HW)
	}
	all := m.all()
	start := int64(0)
	if len(all) > 0 {
		start = all[0].Off
	}
	if f := x.checkForwardReader(start, false, when+" full scan"); f != nil {
		return f
	}
	// layout: segment files and their sizes
	bases, other := dirBases(x.dir)
	var wantBases []int64
	for _, s := range m.Segs {
		wantBases = append(wantBases, s.Base)
	}
	if !reflect.DeepEqual(bases, wantBases) {
		return vfutil.Failf(x.sig("layout/bases"), "%s: segment files %v, model segments %v", when, bases, wantBases)
	}
	for _, s := range m.Segs {
		if sz := logFileSize(x.dir, s.Base); sz != s.Bytes {
			return vfutil.Failf(x.sig("layout/size"), "%s: segment %d is %d bytes on disk, model %d", when, s.Base, sz, s.Bytes)
		}
	}
	for _, n := range other {
		if n != hwFileName && n != leaderEpochFileName {
			return vfutil.Failf(x.sig("layout/leftover"), "%s: unexpected file %q in the log directory", when, n)
		}
	}
	if len(m.Segs) >= 2 {
		x.o.Label("segments>=2")
	}
	if len(m.Segs) >= 4 {
		x.o.Label("segments>=4")
	}
	var newestEpoch uint64
	if len(all) > 0 {
		newestEpoch = all[len(all)-1].Epoch
	}
	{
		if s := epochCacheInvariant(l, newestEpoch, len(all) > 0, x.maxEpoch); s != "" {
			return vfutil.Failf(x.sig("epoch-cache"), "%s: %s", when, s)
		}
		if s := epochLookupInvariant(l, all); s != "" {
			return vfutil.Failf(x.sig("epoch-history-disagrees-with-messages"), "%s: %s", when, s)
		}
	}
	return nil
}
