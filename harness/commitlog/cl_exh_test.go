//go:build verif

package commitlog

// Bounded-exhaustive units of the commit-log flavours: EVERY sequence of up to
// LEN operations over a fixed alphabet, through the same executor and oracle
// as the random search (DESIGN.md §4 C01 "B", §11.7). The alphabets are small
// but chosen so that, with 150-byte segments, every alignment occurs within a
// few letters: a roll between two batches, a roll inside a replicated set, a
// batch that spans the end of a segment, truncation points inside a batch, at
// a segment base and around it, retention limits that fall exactly on, one
// below and one above a cumulative segment sum.

import (
	"fmt"
	"os"
	"testing"

	"github.com/liftbridge-io/liftbridge/server/vfutil"
)

func exhShard() (int, int) {
	shard, shards := vfutil.Param("SHARD", 0), vfutil.Param("SHARDS", 1)
	if v := os.Getenv("VERIF_SHARD"); v != "" {
		fmt.Sscan(v, &shard)
	}
	if v := os.Getenv("VERIF_SHARDS"); v != "" {
		fmt.Sscan(v, &shards)
	}
	return shard, shards
}

// enumSeqs calls yield for every sequence of 1..maxLen letters that belongs to
// this shard (sequences are numbered in depth-first order).
func enumSeqs(nLetters, maxLen int, ok func(idx []int) bool, yield func(idx []int) bool) {
	shard, shards := exhShard()
	n := 0
	idx := make([]int, 0, maxLen)
	var rec func() bool
	rec = func() bool {
		if len(idx) > 0 && (ok == nil || ok(idx)) {
			if n%shards == shard {
				if !yield(idx) {
					return false
				}
			}
			n++
		}
		if len(idx) == maxLen {
			return true
		}
		for i := 0; i < nLetters; i++ {
			idx = append(idx, i)
			if !rec() {
				return false
			}
			idx = idx[:len(idx)-1]
		}
		return true
	}
	rec()
}

func mk(v int) clMsgSpec  { return clMsgSpec{K: -1, V: v, H: -1, DT: 1} }
func mkE(v int) clMsgSpec { return clMsgSpec{K: -1, V: v, H: -1, DT: 1, EB: true} }
func mkK(k, v int) clMsgSpec {
	return clMsgSpec{K: k, V: v, H: -1, DT: 1}
}

// ---- C01 -------------------------------------------------------------------

func c01Alphabet() []clOp {
	return []clOp{
		{Op: "append", Msgs: []clMsgSpec{mk(20)}},
		{Op: "append", Msgs: []clMsgSpec{mk(20), mkE(40), {K: 1, V: 5, H: 2, HV: 1, DT: 0}}}, // a batch with an epoch change inside, larger than half a segment; the last message has a key, two headers and the timestamp of its predecessor
		{Op: "append", Msgs: []clMsgSpec{mk(100)}},                // fills a segment alone
		{Op: "appendset", Msgs: []clMsgSpec{mk(40), mk(8), mk(41)}}, // a replicated set that straddles a roll
		{Op: "truncate", Cls: 1, Sel: 0},                          // strictly inside a batch
		{Op: "truncate", Cls: 2, Sel: 1},                          // a segment base and the offsets around it
		{Op: "truncate", Cls: 2, Sel: 3},
		{Op: "truncate", Cls: 2, Sel: 5},
		{Op: "truncate", Cls: 3, Sel: 1}, // first message of a batch
		{Op: "truncate", Cls: 4, Sel: 0}, // at the end: no-op
		{Op: "reopen"},
		{Op: "reopen", MaxSeg: 64},
		{Op: "sethw", Sel: 0},
		{Op: "sethw", Sel: 999},
		{Op: "probe", Cls: 1, Sel: 0},            // committed reader from a segment base
		{Op: "probe", Cls: 0, Sel: 2, Unc: true}, // uncommitted reader
		{Op: "newreader", Cls: 0, Sel: 0},        // long-lived committed reader ...
		{Op: "read", Sel: 0, N: 2},               // ... that reads two messages
	}
}

// TestVerifC01Exh: every sequence of up to LEN letters of c01Alphabet that
// starts with an append (a sequence that starts otherwise is the same history
// as its suffix on an empty log, up to no-ops).
func TestVerifC01Exh(t *testing.T) {
	maxLen := vfutil.Param("LEN", 4)
	alpha := c01Alphabet()
	vfutil.Exhaustive(t, vfutil.Spec[clCase]{ID: "C01", Gen: genC01, Run: runC01, Summary: clSummary}, func(yield func(clCase) bool) {
		enumSeqs(len(alpha), maxLen, func(idx []int) bool { return idx[0] <= 3 }, func(idx []int) bool {
			c := clCase{Flavor: "C01", MaxSeg: 150}
			for _, i := range idx {
				c.Ops = append(c.Ops, alpha[i])
			}
			return yield(c)
		})
	})
}

// ---- C09 -------------------------------------------------------------------

func c09Clean(bc, bd, mc, md, ac, ad int) clOp {
	return clOp{Op: "clean", BytesCut: bc, BytesD: bd, MsgsCut: mc, MsgsD: md, AgeCut: ac, AgeD: ad}
}

func c09Alphabet() []clOp {
	skew := mkE(20)
	skew.DT = -40 // a new leader whose clock is behind
	return []clOp{
		{Op: "append", Msgs: []clMsgSpec{mk(20)}},
		{Op: "append", Msgs: []clMsgSpec{mk(20), mk(40), mk(5)}},
		{Op: "append", Msgs: []clMsgSpec{mk(100)}},
		{Op: "append", Msgs: []clMsgSpec{skew}},
		{Op: "reopen"},
		{Op: "sethw", Sel: 999},
		// byte limit: exactly the sum of the newest k segments, one below, one above
		c09Clean(1, 0, -1, 0, -1, 0),
		c09Clean(1, -1, -1, 0, -1, 0),
		c09Clean(2, 1, -1, 0, -1, 0),
		// message limit likewise
		c09Clean(-1, 0, 1, 0, -1, 0),
		c09Clean(-1, 0, 1, -1, -1, 0),
		c09Clean(-1, 0, 2, 1, -1, 0),
		// age limit: at the last write of segment k, one below, one above; with an append while the clean runs
		c09Clean(-1, 0, -1, 0, 1, 0),
		c09Clean(-1, 0, -1, 0, 1, -1),
		c09Clean(-1, 0, -1, 0, 0, 1),
		{Op: "clean", BytesCut: -1, MsgsCut: -1, AgeCut: 1, AgeD: 1, Msgs: []clMsgSpec{mk(100)}},
		// all three limits, and the extremes
		c09Clean(2, 0, 1, 1, 0, 0),
		{Op: "clean", BytesCut: -1, MsgsCut: 1, MsgsD: 0, AgeCut: -1, Fault: 2}, // an earlier cycle could not delete the second segment
		c09Clean(0, 2, -1, 0, -1, 0), // tiny byte limit: everything but the newest segment goes
		c09Clean(-1, 0, -1, 0, 0, 3), // everything expired
	}
}

// TestVerifC09Exh: PRE appends fixed in front (a layout of several segments),
// then every sequence of up to LEN letters.
func TestVerifC09Exh(t *testing.T) {
	maxLen := vfutil.Param("LEN", 3)
	alpha := c09Alphabet()
	pre := []clOp{alpha[1], alpha[2], alpha[0], alpha[1]}
	vfutil.Exhaustive(t, vfutil.Spec[clCase]{ID: "C09", Gen: genC09, Run: runCLFlavor, Summary: clSummary}, func(yield func(clCase) bool) {
		for _, maxSeg := range []int64{150, 64} {
			stop := false
			enumSeqs(len(alpha), maxLen, nil, func(idx []int) bool {
				c := clCase{Flavor: "C09", MaxSeg: maxSeg}
				c.Ops = append(c.Ops, pre...)
				for _, i := range idx {
					c.Ops = append(c.Ops, alpha[i])
				}
				if !yield(c) {
					stop = true
					return false
				}
				return true
			})
			if stop {
				return
			}
		}
	})
}

// ---- C08 -------------------------------------------------------------------

func c08Alphabet() []clOp {
	cl := func(w int) clOp {
		return clOp{Op: "clean", BytesCut: -1, MsgsCut: -1, AgeCut: -1, Compact: true, Workers: w}
	}
	return []clOp{
		{Op: "append", Msgs: []clMsgSpec{mkK(1, 20)}},
		{Op: "append", Msgs: []clMsgSpec{mkK(2, 20), mkK(1, 40), mkK(-1, 5)}}, // two keys and a keyless message
		{Op: "append", Msgs: []clMsgSpec{mkK(0, 100)}},                        // the empty key, a segment of its own
		{Op: "append", Msgs: []clMsgSpec{mkK(1, 5), mkK(1, 5), mkK(2, 5)}},    // a run of one key
		{Op: "append", Msgs: []clMsgSpec{mkK(-1, 20)}},
		{Op: "sethw", Sel: 0},
		{Op: "sethw", Sel: 999},
		{Op: "reopen"},
		cl(1),
		cl(4),
		{Op: "clean", BytesCut: 1, BytesD: 0, MsgsCut: -1, AgeCut: -1, Compact: true, Workers: 2}, // compaction with a byte limit
		{Op: "newreader", Cls: 0, Sel: 0},
		{Op: "read", Sel: 0, N: 2},
		{Op: "probe", Cls: 1, Sel: 0},
	}
}

// TestVerifC08Exh: three appends fixed in front, then every sequence of up to
// LEN letters.
func TestVerifC08Exh(t *testing.T) {
	maxLen := vfutil.Param("LEN", 4)
	alpha := c08Alphabet()
	pre := []clOp{alpha[1], alpha[3], alpha[0]}
	vfutil.Exhaustive(t, vfutil.Spec[clCase]{ID: "C08", Gen: genC08, Run: runC08, Summary: clSummary}, func(yield func(clCase) bool) {
		enumSeqs(len(alpha), maxLen, nil, func(idx []int) bool {
			c := clCase{Flavor: "C08", MaxSeg: 150, Workers: 1}
			c.Ops = append(c.Ops, pre...)
			for _, i := range idx {
				c.Ops = append(c.Ops, alpha[i])
			}
			return yield(c)
		})
	})
}
