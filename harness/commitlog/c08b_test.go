//go:build verif

package commitlog

import (
	"fmt"
	"os"
	"runtime"
	"sync"
	"testing"
	"time"

	"github.com/liftbridge-io/liftbridge/server/vfutil"
	"pgregory.net/rapid"
)

// C08b / C09b: Clean() (compaction, optionally with a message-count retention
// limit) runs while another goroutine keeps appending and rolling segments
// (built with -race). The oracle is schedule-independent: whatever the
// interleaving, the survivors are original messages in increasing order, every
// message that had to survive is there, and the log stays usable.

type c08bCase struct {
	MaxSeg  int64         `json:"maxseg"`
	Pre     [][]clMsgSpec `json:"pre"`    // appended before the cleans
	HWFrac  int           `json:"hwfrac"` // HW = frac% of the log before the cleans
	During  [][]clMsgSpec `json:"during"` // appended concurrently with the cleans
	Cleans  int           `json:"cleans"`
	Workers int           `json:"workers"`
	MaxMsgs int64         `json:"maxmsgs"` // 0 = compaction only
	NoComp  bool          `json:"nocomp,omitempty"` // retention only (C09b)
	Yield   int           `json:"yield"`
}

func genC08b(t *rapid.T) c08bCase {
	c := c08bCase{MaxSeg: rapid.SampledFrom([]int64{1, 64, 150, 300}).Draw(t, "maxseg"), HWFrac: rapid.IntRange(0, 100).Draw(t, "hwfrac"),
		Cleans: rapid.IntRange(1, 3).Draw(t, "cleans"), Workers: rapid.SampledFrom([]int{1, 2, 4}).Draw(t, "workers"), Yield: rapid.IntRange(0, 3).Draw(t, "yield")}
	if rapid.IntRange(0, 3).Draw(t, "ret") == 0 {
		c.MaxMsgs = int64(rapid.IntRange(1, 30).Draw(t, "maxmsgs"))
	}
	small := func(b []clMsgSpec) []clMsgSpec {
		for j := range b {
			if b[j].V > 100 {
				b[j].V = 30
			}
		}
		return b
	}
	for i, n := 0, rapid.IntRange(3, 25).Draw(t, "npre"); i < n; i++ {
		c.Pre = append(c.Pre, small(genBatch(t, true, 4)))
	}
	for i, n := 0, rapid.IntRange(1, 25).Draw(t, "nduring"); i < n; i++ {
		c.During = append(c.During, small(genBatch(t, true, 3)))
	}
	return c
}

func runC08b(c c08bCase, o *vfutil.Obs) *vfutil.Failure {
	dir := vfutil.TempDir("c08b")
	defer os.RemoveAll(dir)
	mut := func(op *Options) {
		op.Compact = !c.NoComp
		op.CompactMaxGoroutines = c.Workers
		op.MaxLogMessages = c.MaxMsgs
	}
	l, err := openLog(dir, c.MaxSeg, mut)
	if err != nil {
		return vfutil.Failf("C08/open-error", "%v", err)
	}
	closed := false
	defer func() {
		if !closed {
			l.Close()
		}
	}()
	b := newCLBuilder()
	byOff := map[int64]*mMsg{}
	var all []*mMsg
	appendBatch := func(specs []clMsgSpec) error {
		ms := b.build(specs)
		offs, err := l.Append(toProto(ms))
		if err != nil {
			return err
		}
		for i, m := range ms {
			m.Off = offs[i]
			byOff[m.Off] = m
			all = append(all, m)
		}
		return nil
	}
	for _, sp := range c.Pre {
		if err := appendBatch(sp); err != nil {
			return vfutil.Failf("C08/append-error", "%v", err)
		}
	}
	npre := len(all)
	hw := int64(npre*c.HWFrac/100) - 1
	if hw >= 0 {
		l.SetHighWatermark(hw)
	}
	segsBefore := len(l.Segments())
	// ---- the appender and the cleaner run concurrently
	var wg sync.WaitGroup
	var appErr, cleanErr error
	wg.Add(2)
	go func() {
		defer wg.Done()
		for _, sp := range c.During {
			if err := appendBatch(sp); err != nil {
				appErr = err
				return
			}
			for i := 0; i < c.Yield; i++ {
				runtime.Gosched()
			}
		}
	}()
	go func() {
		defer wg.Done()
		for i := 0; i < c.Cleans; i++ {
			if err := l.Clean(); err != nil {
				cleanErr = err
				return
			}
		}
	}()
	done := make(chan struct{})
	go func() { wg.Wait(); close(done) }()
	select {
	case <-done:
	case <-time.After(60 * time.Second):
		return vfutil.Failf("C08/clean-or-append-hangs/bounded-liveness(60s)", "Clean() x%d concurrent with %d append batches did not finish", c.Cleans, len(c.During))
	}
	if appErr != nil {
		return vfutil.Failf("C08/append-error", "Append during Clean(): %v", appErr)
	}
	if cleanErr != nil {
		return vfutil.Failf("C08/clean-error", "Clean() during appends: %v", cleanErr)
	}
	if len(l.Segments()) > segsBefore {
		o.Label("rolled-during-or-after-clean")
	}
	// ---- what must have survived, whatever the interleaving
	must := map[int64]string{}
	latest := map[string]int64{}
	for _, m := range all[:npre] {
		if m.Key != nil && m.Off <= hw {
			latest[string(m.Key)] = m.Off
		}
	}
	if c.MaxMsgs == 0 {
		for i, m := range all {
			switch {
			case i >= npre:
				must[m.Off] = "appended during the clean"
			case m.Key == nil:
				must[m.Off] = "no key"
			case m.Off >= hw:
				must[m.Off] = "at or above the HW"
			case latest[string(m.Key)] == m.Off:
				must[m.Off] = "latest committed message of its key"
			}
		}
	} else {
		// with a retention limit the cleaner keeps the active segment and as many
		// older segments as fit under the limit: only the newest message is certain
		must[all[len(all)-1].Off] = "the newest message (the active segment is never removed)"
	}
	check := func(what string) *vfutil.Failure {
		got, err := readAll(l, len(all)+3)
		if err != nil {
			return vfutil.Failf("C08/concurrent/readback", "%s: %v", what, err)
		}
		prev := int64(-1)
		have := map[int64]bool{}
		for _, g := range got {
			if g.Off <= prev {
				return vfutil.Failf("C08/concurrent/order", "%s: offsets not strictly increasing: %v", what, gotOffsets(got))
			}
			prev = g.Off
			orig := byOff[g.Off]
			if orig == nil {
				return vfutil.Failf("C08/concurrent/phantom", "%s: offset %d was never appended", what, g.Off)
			}
			if d := sameMsg(orig, g); d != "" {
				return vfutil.Failf("C08/concurrent/modified", "%s: %s", what, d)
			}
			have[g.Off] = true
		}
		if c.NoComp && len(got) > 0 {
			// retention removes whole oldest segments: what is left is a gap-free
			// suffix of what was appended
			for i := 1; i < len(got); i++ {
				if got[i].Off != got[i-1].Off+1 {
					return vfutil.Failf("C08/concurrent/retention-left-a-hole", "%s: survivors %v are not a contiguous suffix of the log", what, gotOffsets(got))
				}
			}
		}
		for off, why := range must {
			if !have[off] {
				return vfutil.Failf("C08/concurrent/lost", "%s: offset %d (%s; key %s) is gone; hw %d, %d messages before and %d during the cleans; survivors %v", what, off, why, show(byOff[off].Key), hw, npre, len(all)-npre, gotOffsets(got))
			}
		}
		if n := l.NewestOffset(); n != all[len(all)-1].Off {
			return vfutil.Failf("C08/concurrent/newest-offset", "%s: NewestOffset %d, last appended %d", what, n, all[len(all)-1].Off)
		}
		return nil
	}
	if f := check("after the concurrent cleans"); f != nil {
		return f
	}
	// the log stays usable: one more append gets the next offset, a reopen shows the same content
	next := all[len(all)-1].Off + 1
	if err := appendBatch([]clMsgSpec{{K: -1, V: 8, H: -1}}); err != nil {
		return vfutil.Failf("C08/append-error", "append after the cleans: %v", err)
	}
	must[all[len(all)-1].Off] = "appended after the cleans"
	if all[len(all)-1].Off != next {
		return vfutil.Failf("C08/concurrent/next-offset", "append after the cleans got offset %d, want %d", all[len(all)-1].Off, next)
	}
	if err := l.Close(); err != nil {
		return vfutil.Failf("C08/close-error", "%v", err)
	}
	closed = true
	l, err = openLog(dir, c.MaxSeg, mut)
	if err != nil {
		return vfutil.Failf("C08/concurrent/reopen-error", "%v", err)
	}
	closed = false
	if f := check("after reopening"); f != nil {
		return f
	}
	if len(c.During) >= 3 && npre >= 6 {
		o.NonTrivial()
	}
	o.Label(fmt.Sprintf("workers:%d", c.Workers))
	if c.MaxMsgs > 0 {
		o.Label("with-retention")
	}
	return nil
}

func TestVerifC08b(t *testing.T) {
	vfutil.Run(t, vfutil.Spec[c08bCase]{ID: "C08", Gen: genC08b, Run: runC08b})
}

// C09b: retention by message count only, concurrent with appends.
func genC09b(t *rapid.T) c08bCase {
	c := genC08b(t)
	c.NoComp = true
	c.MaxMsgs = int64(rapid.IntRange(1, 40).Draw(t, "maxmsgs9"))
	return c
}

func runC09b(c c08bCase, o *vfutil.Obs) *vfutil.Failure {
	f := runC08b(c, o)
	if f != nil && len(f.Signature) > 4 && f.Signature[:4] == "C08/" {
		f.Signature = "C09/" + f.Signature[4:]
	}
	return f
}

func TestVerifC09b(t *testing.T) {
	vfutil.Run(t, vfutil.Spec[c08bCase]{ID: "C09", Gen: genC09b, Run: runC09b})
}
