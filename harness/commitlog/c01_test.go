//go:build verif

package commitlog

import (
	"strings"
	"testing"

	"github.com/liftbridge-io/liftbridge/server/vfutil"
	"pgregory.net/rapid"
)

// ---- generators shared by the commit-log flavours ---------------------------

func genMsgSpec(t *rapid.T, keyed bool) clMsgSpec {
	var sp clMsgSpec
	if keyed {
		sp.K = rapid.SampledFrom([]int{-1, -1, 0, 1, 1, 2, 2, 3, 4, 5}).Draw(t, "k")
	} else {
		sp.K = rapid.SampledFrom([]int{-1, -1, 0, 1, 2, 6}).Draw(t, "k")
	}
	sp.V = rapid.SampledFrom([]int{-1, 0, 5, 8, 20, 20, 40, 40, 100, 100, 2048}).Draw(t, "v")
	if rapid.IntRange(0, 60).Draw(t, "vbig") == 0 {
		sp.V = 70 * 1024
	}
	sp.H = rapid.SampledFrom([]int{-1, -1, 0, 1, 2, 3}).Draw(t, "h")
	if sp.H > 0 {
		sp.HV = rapid.SampledFrom([]int{0, 1, 1, 2}).Draw(t, "hv")
	}
	sp.DT = int64(rapid.SampledFrom([]int{0, 0, 1, 1, 5, 1000}).Draw(t, "dt"))
	sp.EB = rapid.IntRange(0, 6).Draw(t, "eb") == 0
	return sp
}

func genBatch(t *rapid.T, keyed bool, maxN int) []clMsgSpec {
	n := rapid.IntRange(1, maxN).Draw(t, "n")
	out := make([]clMsgSpec, n)
	for i := range out {
		out[i] = genMsgSpec(t, keyed)
	}
	return out
}

var c01SegSizes = []int64{1, 64, 150, 300, 300, 1024, 1024, 65536, 0}

func genC01(t *rapid.T) clCase {
	c := clCase{Flavor: "C01", MaxSeg: rapid.SampledFrom(c01SegSizes).Draw(t, "maxseg")}
	maxOps := 40
	if vfutil.Thorough() {
		maxOps = 120
	}
	n := rapid.IntRange(1, maxOps).Draw(t, "nops")
	for i := 0; i < n; i++ {
		var op clOp
		switch rapid.SampledFrom([]string{"append", "append", "append", "append", "append", "appendset", "appendset",
			"truncate", "truncate", "reopen", "sethw", "probe", "probe", "newreader", "read", "read", "sethw2", "parksplit"}).Draw(t, "op") {
		case "parksplit":
			op = clOp{Op: "parksplit", Msgs: genBatch(t, false, 3)}
		case "newreader": // a long-lived committed reader, parked across later operations
			op = clOp{Op: "newreader", Cls: rapid.IntRange(0, 5).Draw(t, "cls"), Sel: rapid.IntRange(0, 1000).Draw(t, "sel")}
		case "read":
			op = clOp{Op: "read", Sel: rapid.IntRange(0, 7).Draw(t, "reader"), N: rapid.IntRange(1, 5).Draw(t, "n")}
		case "sethw2":
			op = clOp{Op: "sethw2", Cls: rapid.IntRange(0, 2).Draw(t, "cls"), Sel: rapid.IntRange(0, 1000).Draw(t, "sel")}
		case "append":
			op = clOp{Op: "append", Msgs: genBatch(t, false, 8)}
		case "appendset":
			op = clOp{Op: "appendset", Msgs: genBatch(t, false, 6)}
		case "truncate":
			op = clOp{Op: "truncate", Cls: rapid.IntRange(0, 4).Draw(t, "cls"), Sel: rapid.IntRange(0, 1000).Draw(t, "sel")}
		case "reopen":
			op = clOp{Op: "reopen"}
			if rapid.Bool().Draw(t, "resize") {
				op.MaxSeg = rapid.SampledFrom([]int64{1, 64, 150, 300, 1024, 65536}).Draw(t, "newmaxseg")
			}
		case "sethw":
			op = clOp{Op: "sethw", Sel: rapid.IntRange(0, 1000).Draw(t, "sel")}
		case "probe":
			op = clOp{Op: "probe", Cls: rapid.IntRange(0, 5).Draw(t, "cls"), Sel: rapid.IntRange(0, 1000).Draw(t, "sel"), Unc: rapid.Bool().Draw(t, "unc")}
		}
		c.Ops = append(c.Ops, op)
	}
	return c
}

func runC01(c clCase, o *vfutil.Obs) *vfutil.Failure {
	var xx *clExec
	var readers []*c03Reader
	nt := false
	afterTrunc := false
	hook := c03Hook(&readers, &nt, o)
	f := runCL(c, o, func(x *clExec, op clOp) (*vfutil.Failure, bool) {
		xx = x
		if afterTrunc {
			// readers positioned inside the truncated suffix are dropped; the
			// others go on reading across the truncation
			afterTrunc = false
			live := readers[:0]
			for _, rd := range readers {
				if rd.next <= x.m.newest()+1 {
					live = append(live, rd)
				}
			}
			if len(live) > 0 {
				o.Label("reader-parked-across-truncation")
			}
			readers = live
		}
		switch op.Op {
		case "truncate":
			afterTrunc = true
			return nil, false
		case "reopen":
			// parked readers do not survive a reopen
			readers = nil
			return nil, false
		}
		f, handled := hook(x, op)
		if f != nil && strings.HasPrefix(f.Signature, "C03/") {
			f.Signature = "C01/parked-committed-reader/" + strings.TrimPrefix(f.Signature, "C03/")
		}
		return f, handled
	})
	if xx != nil && xx.sawRoll && xx.ntDetail {
		o.NonTrivial()
	}
	return f
}

func clSummary(c clCase) interface{} {
	var ops []string
	for _, op := range c.Ops {
		s := op.Op
		switch op.Op {
		case "append", "appendset":
			s += "("
			for i, m := range op.Msgs {
				if i > 0 {
					s += " "
				}
				s += "k" + itoa(m.K) + "v" + itoa(m.V) + "h" + itoa(m.H)
				if m.EB {
					s += "e+"
				}
			}
			s += ")"
		case "truncate", "probe", "sethw", "newreader", "read":
			s += "(cls" + itoa(op.Cls) + " sel" + itoa(op.Sel)
			if op.Unc {
				s += " unc"
			}
			if op.Rev {
				s += " rev"
			}
			s += ")"
		case "reopen":
			if op.MaxSeg != 0 {
				s += "(maxseg " + itoa(int(op.MaxSeg)) + ")"
			}
		}
		ops = append(ops, s)
	}
	return map[string]interface{}{"flavor": c.Flavor, "max_segment_bytes": c.MaxSeg, "occ": c.OCC, "workers": c.Workers, "ops": ops}
}

func itoa(i int) string {
	neg := i < 0
	if neg {
		i = -i
	}
	s := ""
	for {
		s = string(rune('0'+i%10)) + s
		i /= 10
		if i == 0 {
			break
		}
	}
	if neg {
		s = "-" + s
	}
	return s
}

func TestVerifC01(t *testing.T) {
	vfutil.Run(t, vfutil.Spec[clCase]{ID: "C01", Gen: genC01, Run: runC01, Summary: clSummary})
}

