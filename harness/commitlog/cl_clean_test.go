//go:build verif

package commitlog

import (
	"fmt"
	"os"
	"sort"
	"strconv"
	"strings"
	"time"

	pkgErrors "github.com/pkg/errors"

	"github.com/liftbridge-io/liftbridge/server/vfutil"
)

// resolveLimit turns a (cut, delta) selector into a concrete limit using the
// suffix sums of the model layout. cut < 0 disables the limit.
func resolveLimit(suffix []int64, cut, d int) (int64, string) {
	if cut < 0 || len(suffix) == 0 {
		return 0, "off"
	}
	k := cut % len(suffix)
	switch d {
	case 2:
		return 1, "tiny"
	case 3:
		return 1 << 40, "huge"
	}
	v := suffix[k] + int64(d)
	if v <= 0 {
		v = 1
	}
	return v, fmt.Sprintf("cut%+d", d)
}

// retentionCut is the closed-form expectation: the number of oldest segments
// that must go so that every configured limit holds on the surviving suffix,
// never including the newest segment.
func retentionCut(segs []*mSeg, maxBytes, maxMsgs int64, ageOn bool, ttl int64) (k int, why []string) {
	n := len(segs)
	if n <= 1 {
		return 0, nil
	}
	kAge, kMsg, kBytes := 0, 0, 0
	if ageOn {
		for i := 0; i < n-1; i++ {
			last := segs[i].Msgs[len(segs[i].Msgs)-1].TS
			if last < ttl {
				kAge = i + 1
			} else {
				break
			}
		}
	}
	if maxMsgs > 0 {
		var sum int64
		kMsg = 0
		for i := n - 1; i >= 0; i-- {
			sum += int64(len(segs[i].Msgs))
			if sum > maxMsgs {
				kMsg = i + 1
				break
			}
		}
		if kMsg > n-1 {
			kMsg = n - 1
		}
	}
	if maxBytes > 0 {
		var sum int64
		for i := n - 1; i >= 0; i-- {
			sum += segs[i].Bytes
			if sum > maxBytes {
				kBytes = i + 1
				break
			}
		}
		if kBytes > n-1 {
			kBytes = n - 1
		}
	}
	k = kAge
	if kMsg > k {
		k = kMsg
	}
	if kBytes > k {
		k = kBytes
	}
	if kAge > 0 {
		why = append(why, "age")
	}
	if kMsg > 0 {
		why = append(why, "messages")
	}
	if kBytes > 0 {
		why = append(why, "bytes")
	}
	return k, why
}

// readAll scans the whole log forward (uncommitted) without expectations.
func readAll(l *commitLog, max int) ([]gotMsg, error) {
	start := l.OldestOffset()
	if start < 0 {
		start = 0
	}
	got, openErr, _ := readForward(l, start, true, max)
	if openErr != nil && pkgErrors.Cause(openErr) != ErrSegmentNotFound {
		return nil, openErr
	}
	return got, nil
}

func (x *clExec) clean(op clOp) *vfutil.Failure {
	m := x.m
	n := len(m.Segs)
	// suffix sums over the current layout
	bytesSuf := make([]int64, n)
	msgsSuf := make([]int64, n)
	var bs, ms int64
	for i := n - 1; i >= 0; i-- {
		bs += m.Segs[i].Bytes
		ms += int64(len(m.Segs[i].Msgs))
		bytesSuf[i], msgsSuf[i] = bs, ms
	}
	maxBytes, bcls := resolveLimit(bytesSuf, op.BytesCut, op.BytesD)
	maxMsgs, mcls := resolveLimit(msgsSuf, op.MsgsCut, op.MsgsD)
	ageOn := op.AgeCut >= 0
	var ttl int64
	acls := "off"
	if ageOn {
		k := op.AgeCut % n
		last := int64(0)
		if len(m.Segs[k].Msgs) > 0 {
			last = m.Segs[k].Msgs[len(m.Segs[k].Msgs)-1].TS
		}
		switch op.AgeD {
		case 2:
			ttl, acls = 1, "none-expired"
		case 3:
			ttl, acls = 1<<62, "all-expired"
		default:
			ttl, acls = last+int64(op.AgeD), fmt.Sprintf("cut%+d", op.AgeD)
		}
	}
	combo := ""
	if ageOn {
		combo += "A"
	}
	if maxMsgs > 0 {
		combo += "M"
	}
	if maxBytes > 0 {
		combo += "B"
	}
	if combo == "" {
		combo = "none"
	}
	x.o.Label("limits:" + combo)
	x.o.Label("bytes:" + bcls)
	x.o.Label("msgs:" + mcls)
	x.o.Label("age:" + acls)

	workers := x.workers
	if op.Workers != 0 {
		workers = op.Workers
	}
	if x.retBytes != maxBytes || x.retMsgs != maxMsgs || x.retAge != ageOn || x.compact != op.Compact || x.workers != workers {
		x.close()
		x.retBytes, x.retMsgs, x.retAge, x.compact, x.workers = maxBytes, maxMsgs, ageOn, op.Compact, workers
		if f := x.open(); f != nil {
			return f
		}
	}

	before := m.all()
	beforeByOff := map[int64]*mMsg{}
	for _, b := range before {
		beforeByOff[b.Off] = b
	}
	hw := m.HW
	must := map[int64]bool{}
	// Appends that happen while the clean is running: the retention cleaner
	// calls computeTTL with no lock held, after Clean() took its snapshot of the
	// segments - the hook appends there, deterministically.
	var during []*mMsg
	var duringErr error
	if ageOn && len(op.Msgs) > 0 && !m.Readonly {
		during = x.b.build(op.Msgs)
		x.noteEpochs(during)
	}
	saved := computeTTL
	hooked := false
	computeTTL = func(time.Duration) int64 {
		if len(during) > 0 && !hooked {
			hooked = true
			_, duringErr = x.l.Append(toProto(during))
		}
		return ttl
	}
	faulted := false
	if op.Fault > 0 && n > 1 && len(during) == 0 {
		if segs := x.l.Segments(); len(segs) > 1 {
			victim := segs[(op.Fault-1)%(len(segs)-1)]
			if victim.log.Close() == nil {
				faulted = true
				ferr := x.l.Clean() // may or may not report the failure
				if os.Getenv("VERIF_DEBUG") != "" {
					var bs []int64
					for _, sg := range x.l.Segments() {
						bs = append(bs, sg.BaseOffset)
					}
					fmt.Fprintf(os.Stderr, "DEBUG fault clean: victim base %d err %v segments now %v\n", victim.BaseOffset, ferr, bs)
				}
				if ferr != nil {
					x.o.Label("clean-with-delete-fault:error-reported")
				} else {
					x.o.Label("clean-with-delete-fault:no-error")
				}
				if ferr == nil {
					// the cycle went through (the victim was not due, or the failure was
					// not reported): its effect is that of a clean without a fault. The
					// clean proper then starts from what that cycle left - with timestamps
					// that are not monotone a second pass can remove more, because the age
					// limit stops at the first segment that has not expired and the first
					// pass may have removed that segment for another limit.
					cut1, _ := retentionCut(m.Segs[:n], maxBytes, maxMsgs, ageOn, ttl)
					if cut1 > 0 {
						m.Segs = m.Segs[cut1:]
						n = len(m.Segs)
						x.trimmed = true
					}
				}
				// the fault goes away
				if f, e := os.OpenFile(victim.logPath(), os.O_RDWR|os.O_APPEND, 0644); e == nil {
					victim.Lock()
					victim.log, victim.writer, victim.reader = f, f, f
					victim.Unlock()
				}
			}
		}
	}
	err := x.l.Clean()
	computeTTL = saved
	if duringErr != nil {
		return vfutil.Failf(x.sig("append-error"), "step %d: Append during Clean() failed: %v", x.step, duringErr)
	}
	if len(during) > 0 && !hooked {
		during = nil // a single segment is never cleaned: the hook did not run
	}
	if len(during) > 0 {
		rolled := m.appendMsgs(during)
		x.o.Label("append-during-clean")
		if rolled {
			x.sawRoll = true
			x.o.Label("roll-during-clean")
		}
		for _, d := range during {
			beforeByOff[d.Off] = d
			must[d.Off] = true
		}
		before = append(before, during...)
	}
	// expectation for retention: the cleaner works on the segments that existed
	// when Clean() started (the last of them may have grown by now); segments
	// rolled meanwhile are kept as they are
	snapSegs := m.Segs[:n]
	cut, why := retentionCut(snapSegs, maxBytes, maxMsgs, ageOn, ttl)
	survSegs := snapSegs[cut:]
	// expectation for compaction (on the post-retention snapshot layout)
	compacting := op.Compact && len(survSegs) > 1
	if compacting {
		latest := map[string]int64{}
		for _, s := range survSegs {
			for _, mm := range s.Msgs {
				if mm.Key != nil && mm.Off <= hw {
					latest[string(mm.Key)] = mm.Off
				}
			}
		}
		for i, s := range survSegs {
			for _, mm := range s.Msgs {
				if mm.Key == nil || mm.Off >= hw || i == len(survSegs)-1 || latest[string(mm.Key)] == mm.Off {
					must[mm.Off] = true
				}
			}
		}
	}
	if err != nil {
		return vfutil.Failf(x.sig("clean-error"), "step %d: Clean() failed: %v", x.step, err)
	}
	x.cleanedOnce = true

	got, rerr := readAll(x.l, len(before)+3)
	if rerr != nil {
		return vfutil.Failf(x.sig("clean-readback"), "step %d: cannot read the log after Clean(): %v", x.step, rerr)
	}
	// every survivor is an original message, unchanged, in increasing order
	prev := int64(-1)
	gotSet := map[int64]bool{}
	for _, g := range got {
		if g.Off <= prev {
			return vfutil.Failf(x.sig("clean/order"), "step %d: after Clean() offsets not strictly increasing: %v", x.step, gotOffsets(got))
		}
		prev = g.Off
		orig := beforeByOff[g.Off]
		if orig == nil {
			return vfutil.Failf(x.sig("clean/phantom"), "step %d: after Clean() offset %d appeared which was not in the log before (%v)", x.step, g.Off, offsetsOf(before))
		}
		if d := sameMsg(orig, g); d != "" {
			return vfutil.Failf(x.sig("clean/modified"), "step %d: after Clean() survivor changed: %s", x.step, d)
		}
		gotSet[g.Off] = true
	}
	desc := fmt.Sprintf("step %d: Clean() with limits bytes=%d msgs=%d age(ttl)=%v/%d compact=%v hw=%d on segments %s", x.step, maxBytes, maxMsgs, ageOn, ttl, op.Compact, hw, layoutString(m.Segs))
	if faulted {
		// a segment whose deletion failed in the earlier cycle must have been
		// dealt with by this successful one: what is on disk is what the log holds
		var inMem, onDisk []int64
		for _, sg := range x.l.Segments() {
			inMem = append(inMem, sg.BaseOffset)
		}
		files, _ := os.ReadDir(x.dir)
		for _, fi := range files {
			if strings.HasSuffix(fi.Name(), logFileSuffix) {
				b, _ := strconv.ParseInt(strings.TrimSuffix(fi.Name(), logFileSuffix), 10, 64)
				onDisk = append(onDisk, b)
			}
		}
		sort.Slice(onDisk, func(i, j int) bool { return onDisk[i] < onDisk[j] })
		if fmt.Sprint(inMem) != fmt.Sprint(onDisk) {
			return vfutil.Failf(x.sig("retention/segment-left-on-disk-after-failed-delete"), "%s, after an earlier Clean() in which deleting one segment failed: the log holds segments %v but the directory holds %v", desc, inMem, onDisk)
		}
	}
	// retention: exactly the oldest `cut` segments are gone
	for i, s := range m.Segs {
		for _, mm := range s.Msgs {
			if i < cut && gotSet[mm.Off] {
				return vfutil.Failf(x.sig("retention/kept-too-much"), "%s: segment %d (base %d) should have been removed (limits require cutting %d segments: %v) but offset %d survived; survivors %v", desc, i, s.Base, cut, why, mm.Off, gotOffsets(got))
			}
			if i >= cut && !compacting && !gotSet[mm.Off] {
				cls := "removed-too-much"
				if i == n-1 {
					cls = "removed-newest-segment"
				}
				return vfutil.Failf(x.sig("retention/"+cls), "%s: only the %d oldest segments may be removed (%v) but offset %d of segment %d is gone; survivors %v", desc, cut, why, mm.Off, i, gotOffsets(got))
			}
		}
	}
	if compacting && x.c.Flavor == "C08" {
		for off := range must {
			if !gotSet[off] {
				mm := beforeByOff[off]
				cls := "latest-of-key"
				switch {
				case mm.Key == nil:
					cls = "no-key"
				case mm.Off >= hw:
					cls = "at-or-above-hw"
				case survSegs[len(survSegs)-1].Base <= mm.Off:
					cls = "newest-segment"
				case len(mm.Key) == 0:
					cls = "latest-of-empty-key"
				}
				return vfutil.Failf(x.sig("compaction/lost/"+cls), "%s: offset %d (key %s) must survive compaction but is gone; survivors %v", desc, off, show(mm.Key), gotOffsets(got))
			}
		}
	}
	// non-trivial rules (see DESIGN.md C08/C09)
	if x.c.Flavor == "C09" && n >= 3 && combo != "none" && cut > 0 && cut < n-1 {
		x.nt = true
	}
	if compacting && len(survSegs) >= 3 && len(before) > 0 && hw > survSegs[0].Msgs[0].Off && hw < m.newest() {
		seen := map[string]int{}
		dup := false
		for i, sg := range survSegs {
			for _, mm := range sg.Msgs {
				if mm.Key == nil || mm.Off > hw {
					continue
				}
				if j, ok := seen[string(mm.Key)]; ok && j != i {
					dup = true
				}
				seen[string(mm.Key)] = i
			}
		}
		if dup {
			x.nt = true
			x.o.Label("compaction-nontrivial")
		}
	}
	for _, mm := range before {
		if mm.Key != nil && len(mm.Key) == 0 {
			x.o.Label("empty-key-present")
			break
		}
	}
	// update the model to what survived
	removed := 0
	var newSegs []*mSeg
	allSurv := m.Segs[cut:] // the snapshot's survivors plus segments rolled during the clean
	for i, s := range allSurv {
		var keep []*mMsg
		var bytes int64
		for _, mm := range s.Msgs {
			if gotSet[mm.Off] {
				keep = append(keep, mm)
				bytes += mm.Size
			} else {
				removed++
			}
		}
		if len(keep) == 0 && i < len(survSegs)-1 {
			x.o.Label("segment-emptied")
			continue
		}
		s.Msgs, s.Bytes = keep, bytes
		newSegs = append(newSegs, s)
	}
	m.Segs = newSegs
	if cut > 0 {
		x.trimmed = true
		x.o.Label("retention-removed")
		if cut < n-1 {
			x.o.Label("retention-cut-inside")
		}
	}
	if removed > 0 {
		x.sparse = true
		x.o.Label("compaction-removed")
		x.o.Count("compaction_removed_msgs", removed)
	}
	if compacting {
		x.o.Label("compaction-ran")
		x.o.Label(fmt.Sprintf("workers:%d", x.workers))
	}
	return nil
}

func layoutString(segs []*mSeg) string {
	s := "["
	for i, g := range segs {
		if i > 0 {
			s += " "
		}
		s += fmt.Sprintf("%d:%dmsgs/%dB", g.Base, len(g.Msgs), g.Bytes)
	}
	return s + "]"
}

// checkAllReaders: reader consistency on a (possibly sparse) log from every
// start offset: forward uncommitted/committed and committed reverse.
func (x *clExec) checkAllReaders(what string, reverse bool) *vfutil.Failure {
	newest := x.m.newest()
	all := x.m.all()
	starts := []int64{}
	if newest < 40 {
		for s := int64(0); s <= newest+1; s++ {
			starts = append(starts, s)
		}
	} else {
		step := newest/40 + 1
		for s := int64(0); s <= newest+1; s += step {
			starts = append(starts, s)
		}
		for _, sg := range x.m.Segs {
			starts = append(starts, sg.Base, sg.next()-1, sg.next())
		}
		sort.Slice(starts, func(i, j int) bool { return starts[i] < starts[j] })
	}
	for _, s := range starts {
		if s < 0 {
			continue
		}
		if f := x.checkForwardReader(s, false, what); f != nil {
			return f
		}
		if f := x.checkForwardReader(s, true, what); f != nil {
			return f
		}
		if !reverse {
			continue
		}
		// committed reverse reader: S ∩ (-inf, min(s,hw)] descending
		lim := s
		if x.m.HW < lim {
			lim = x.m.HW
		}
		var want []*mMsg
		for i := len(all) - 1; i >= 0; i-- {
			if all[i].Off <= lim {
				want = append(want, all[i])
			}
		}
		got, openErr, endErr := readReverse(x.l, s, false, len(want)+3)
		desc := fmt.Sprintf("%s: committed reverse reader from %d (hw %d, survivors %v)", what, s, x.m.HW, offsetsOf(all))
		if openErr != nil {
			if len(want) == 0 && pkgErrors.Cause(openErr) == ErrSegmentNotFound {
				continue
			}
			return vfutil.Failf(x.sig("reverse-reader/open-error"), "%s: %v (want %v)", desc, openErr, offsetsOf(want))
		}
		inGap := x.m.get(lim) == nil
		if inGap {
			x.o.Label("reverse-start-in-gap")
		}
		if f := compareSeq(x.sig("reverse-reader"), desc, want, got); f != nil {
			return f
		}
		if endErr == nil {
			return vfutil.Failf(x.sig("reverse-reader/extra"), "%s: returned more than the %d expected messages", desc, len(want))
		}
	}
	return nil
}
