import json,jsonschema,glob,sys,os
m=json.load(open('/verif/MANIFEST.json'))
jsonschema.validate(m, json.load(open('/root/.vp/MANIFEST.schema.json')))
s=json.load(open('/root/.vp/EVIDENCE.schema.json'))
cats={c['property_id']:c['level_claimed']['category'] for c in m['checks']}
bad=0
for f in sorted(glob.glob('/verif/evidence/*.json')):
    e=json.load(open(f))
    jsonschema.validate(e, s)
    pid=os.path.basename(f)[:-5]
    if pid in cats and e['level']!=cats[pid]:
        print('LEVEL MISMATCH', f, e['level'], cats[pid]); bad=1
    if e['coverage'].get('distinct_nontrivial',0)<2 or not e['coverage'].get('samples'):
        print('WEAK EVIDENCE', f); bad=1
    print('ok', f)
for pid in cats:
    if not os.path.exists('/verif/evidence/%s.json'%pid):
        print('MISSING EVIDENCE', pid); bad=1
print('manifest ok' if not bad else 'PROBLEMS')
sys.exit(bad)
