#!/usr/bin/env python3
"""Regenerates /verif/MANIFEST.json from lib/units.py (run after editing units.py)."""
import json, os, sys
VERIF = os.path.dirname(os.path.dirname(os.path.abspath(__file__)))
sys.path.insert(0, os.path.join(VERIF, "lib"))
import units as U

ALL = ["C%02d" % i for i in range(1, 20)]
checks = []
for pid in ALL:
    p = U.PROPS.get(pid)
    if not p or not p.get("claimed", True):
        continue
    lvl = p.get("level", "exploration")
    cat = lvl if isinstance(lvl, str) else lvl.get("thorough", "exploration")
    checks.append({
        "property_id": pid,
        "quick_cmd": "./check %s --tier quick" % pid,
        "thorough_cmd": "./check %s --tier thorough" % pid,
        "evidence_file": "/verif/evidence/%s.json" % pid,
        "replay_cmd_template": "./check %s --replay {path}" % pid,
        "engine": "rapid-harness",
        "level_claimed": {"category": cat, "text": p["level_text"], "design_ref": p.get("design_ref", "DESIGN.md §4 " + pid)},
        "level_note": p["level_note"],
        "technique": p["technique"],
    })
na = []
for pid in ALL:
    if pid not in [c["property_id"] for c in checks]:
        na.append({"property_id": pid, "reason": U.NOT_YET.get(pid, "harness not built yet in this session (design in DESIGN.md §4); no claim is made")})
m = {
    "version": 1,
    "setup_cmd": "./check ALL-BUILD",
    "hooks": {
        "guard": "verif",
        "enable": "go test -c -tags verif -overlay build/overlay-*.json (harness _test.go files are injected by overlay; hook code in /repo is behind //go:build verif)",
        "baseline_off_cmd": "cd /repo && go test -vet=off -count=1 -timeout 25m ./...",
        "source_commits": U.HOOK_COMMITS,
        "add_only": True,
    },
    "engines": [{"name": "rapid-harness", "path": "/verif/lib/driver.py + /verif/harness", "serves_properties": [c["property_id"] for c in checks],
                 "kind_free_text": "property-based testing (pgregory.net/rapid v1.3.0, stateful/model-based generators, shrinking to replay files), bounded-exhaustive enumeration, native go fuzzing; python3 driver shards by derived seed"}],
    "checks": checks,
    "not_applicable": na,
    "notes": "Exit codes: 0 held, 1 VIOLATION, 2 INCONCLUSIVE (infrastructure). VERIF_SEED selects the derived per-shard rapid seeds. Known findings: /verif/known_findings.json.",
}
json.dump(m, open(os.path.join(VERIF, "MANIFEST.json"), "w"), indent=1)
print("MANIFEST.json: %d checks, %d not_applicable" % (len(checks), len(na)))
