#!/bin/sh
# lib/seedtake.sh <ID> <seeded-dir-name> [check args]: takes /tmp/seed7-<ID>/SEEDED as seeded/<name>, verifies the demo in a
# scratch worktree (fails with the patch, passes without), runs the quick check against a patched scratch copy, removes the agent's worktree
id=$1; name=$2; shift 2
src=/tmp/seed7-$id/SEEDED
[ -f $src/patch.diff ] || { echo "no $src/patch.diff"; exit 2; }
mkdir -p /verif/seeded/$name
cp $src/patch.diff $src/meta.json /verif/seeded/$name/
for f in $src/*.go; do [ -f "$f" ] && cp $f /verif/seeded/$name/; done
git -C /repo worktree remove --force /tmp/seed7-$id 2>/dev/null
echo "== verify"; sh /verif/lib/seedverify.sh $name 2>&1 | tail -12
echo "== check"; sh /verif/lib/seedtest2.sh $name $id "$@"
