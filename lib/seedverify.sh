#!/bin/sh
# lib/seedverify.sh <seeded-dir-name>: confirms in a scratch worktree that the demo fails with the patch and passes without it
name=$1
d=/verif/seeded/$name
wt=/tmp/wt-seedverify-$$
git -C /repo worktree add -q --detach $wt HEAD || exit 2
copyto=$(python3 -c "import json;print(json.load(open('$d/meta.json'))['demo_copy_to'])")
cmd=$(python3 -c "import json;print(json.load(open('$d/meta.json'))['demo_cmd'])")
demo=$(ls $d/*_test.go | head -1)
cp $demo $wt/$copyto
cd $wt
export GOFLAGS=-mod=mod GOPROXY=off
echo "--- without patch:"; unshare -n sh -c "ip link set lo up; $cmd" 2>&1 | tail -2
git apply $d/patch.diff && { echo "--- with patch:"; unshare -n sh -c "ip link set lo up; $cmd" 2>&1 | tail -3; }
cd /; git -C /repo worktree remove --force $wt
