#!/usr/bin/env python3
"""Driver for the /verif checks (python3, stdlib only).

  check <ID> [--tier quick|thorough] [--replay FILE] [--units a,b] [--keep]

Builds the harness test binaries from $VERIF_REPO's (default /repo) current
working tree (go test -c -tags verif -overlay …), runs the regression replays,
then the seeded sharded search, merges the shard statistics into
/verif/evidence/<ID>.json and prints VIOLATION / KNOWN-FINDING / INCONCLUSIVE
lines.  Exit 0 held, 1 violation, 2 infrastructure trouble.
"""
import argparse
import hashlib
import json
import os
import re
import shutil
import signal
import subprocess
import sys
import time
from concurrent.futures import ThreadPoolExecutor

VERIF = os.path.dirname(os.path.dirname(os.path.abspath(__file__)))
sys.path.insert(0, os.path.join(VERIF, "lib"))
import units as UNITS  # noqa: E402

REPO = os.environ.get("VERIF_REPO", "/repo")
MODULE = "github.com/liftbridge-io/liftbridge"
NCPU = os.cpu_count() or 4


def log(*a):
    print(*a, flush=True)


# --------------------------------------------------------------------------
# build
# --------------------------------------------------------------------------

def go_binary():
    """The toolchain /repo/go.mod asks for, straight from the module cache."""
    ver = None
    try:
        for line in open(os.path.join(REPO, "go.mod")):
            m = re.match(r"^(?:go|toolchain)\s+(?:go)?([0-9.]+)\s*$", line.strip())
            if m:
                ver = m.group(1)
                if line.startswith("toolchain"):
                    break
    except OSError:
        pass
    cache = os.environ.get("GOMODCACHE") or os.path.expanduser("~/go/pkg/mod")
    if ver:
        cand = os.path.join(cache, "golang.org", "toolchain@v0.0.1-go%s.linux-amd64" % ver, "bin", "go")
        if os.path.exists(cand):
            return cand, "local"
    return shutil.which("go") or "go", "auto"


def go_env():
    gobin, tc = go_binary()
    env = dict(os.environ)
    env.update({
        "GOFLAGS": "-mod=mod",
        "GOPROXY": "off",
        "GOTOOLCHAIN": tc,
        "GONOSUMDB": "*",
    })
    if tc == "local":
        env["GOSUMDB"] = "off"
        env["PATH"] = os.path.dirname(gobin) + os.pathsep + env.get("PATH", "")
    else:
        env.pop("GOSUMDB", None)
    return gobin, env


def build_dir():
    d = os.path.join(VERIF, "build")
    os.makedirs(os.path.join(d, "bin"), exist_ok=True)
    return d


def inv_tag():
    """names of build products are unique per driver invocation, so that concurrent invocations
    (several checks at once, a self-test next to a check) never rewrite each other's files"""
    return "%s-%d" % (hashlib.sha1(REPO.encode()).hexdigest()[:8], os.getpid())


def remove_build_products():
    bd = build_dir()
    tag = inv_tag()
    for d in (bd, os.path.join(bd, "bin")):
        for fn in os.listdir(d):
            if tag in fn:
                try:
                    os.remove(os.path.join(d, fn))
                except OSError:
                    pass


def prepare_overlay():
    bd = build_dir()
    tag = inv_tag()
    # modfile: /repo's own go.mod + rapid, never written back to /repo
    mod = open(os.path.join(REPO, "go.mod")).read()
    if "pgregory.net/rapid" not in mod:
        mod += "\nrequire pgregory.net/rapid v1.3.0\n"
    modfile = os.path.join(bd, "repo-%s.mod" % tag)
    sumfile = os.path.join(bd, "repo-%s.sum" % tag)
    with open(modfile, "w") as f:
        f.write(mod)
    sums = open(os.path.join(REPO, "go.sum")).read()
    extra = os.path.join(VERIF, "lib", "extra.sum")
    if os.path.exists(extra):
        have = set(sums.splitlines())
        for line in open(extra).read().splitlines():
            if line and line not in have:
                sums += line + "\n"
    with open(sumfile, "w") as f:
        f.write(sums)
    replace = {}
    hroot = os.path.join(VERIF, "harness")
    for pkg in sorted(os.listdir(hroot)):
        src = os.path.join(hroot, pkg)
        if not os.path.isdir(src):
            continue
        if pkg == "server":
            dst = os.path.join(REPO, "server")
        else:
            dst = os.path.join(REPO, "server", pkg)
        for fn in sorted(os.listdir(src)):
            if not fn.endswith(".go"):
                continue
            name = fn if pkg == "vfutil" else "zz_verif_" + fn
            replace[os.path.join(dst, name)] = os.path.join(src, fn)
    overlay = os.path.join(bd, "overlay-%s.json" % tag)
    with open(overlay, "w") as f:
        json.dump({"Replace": replace}, f, indent=1)
    return modfile, overlay


def bin_path(pkg, race):
    tag = inv_tag()
    suffix = ""
    if isinstance(race, str):
        suffix = "-" + race.replace(":", "-")
    elif race:
        suffix = "-race"
    return os.path.join(build_dir(), "bin", "%s-%s%s.test" % (pkg.replace("/", "_"), tag, suffix))


def build(pkgs):
    """pkgs: set of (pkg, race) where race is False, True or "fuzz:<FuzzTarget>" (coverage-instrumented
    binary for Go's native fuzzer). Returns (ok, message)."""
    gobin, env = go_env()
    modfile, overlay = prepare_overlay()

    def one(item):
        pkg, race = item
        out = bin_path(pkg, race)
        cmd = [gobin, "test", "-c", "-tags", "verif", "-vet=off", "-modfile=" + modfile, "-overlay=" + overlay, "-o", out]
        if isinstance(race, str) and race.startswith("fuzz:"):
            cmd.append("-fuzz=^%s$" % race[5:])
        elif race:
            cmd.append("-race")
        cmd.append("./" + pkg)
        t0 = time.time()
        try:
            os.remove(out)
        except OSError:
            pass
        p = subprocess.run(cmd, cwd=REPO, env=env, stdout=subprocess.PIPE, stderr=subprocess.STDOUT, text=True)
        return pkg, race, p.returncode, p.stdout, time.time() - t0

    ok = True
    msgs = []
    with ThreadPoolExecutor(max_workers=4) as ex:
        for pkg, race, rc, out, dt in ex.map(one, sorted(pkgs, key=lambda x: (x[0], str(x[1])))):
            if rc != 0 or not os.path.exists(bin_path(pkg, race)):
                ok = False
                msgs.append("build of %s%s failed (rc=%d):\n%s" % (pkg, " -race" if race else "", rc, out[-4000:]))
            else:
                log("built %s%s in %.1fs" % (pkg, (" -" + race.split(":")[0] if isinstance(race, str) else " -race") if race else "", dt))
    return ok, "\n".join(msgs)


# --------------------------------------------------------------------------
# running
# --------------------------------------------------------------------------

def splitmix64(x):
    x = (x + 0x9E3779B97F4A7C15) & 0xFFFFFFFFFFFFFFFF
    z = x
    z = ((z ^ (z >> 30)) * 0xBF58476D1CE4E5B9) & 0xFFFFFFFFFFFFFFFF
    z = ((z ^ (z >> 27)) * 0x94D049BB133111EB) & 0xFFFFFFFFFFFFFFFF
    return z ^ (z >> 31)


def shard_seed(seed, unit, i):
    h = int.from_bytes(hashlib.sha1(unit.encode()).digest()[:8], "big")
    return splitmix64(splitmix64(seed & 0xFFFFFFFFFFFFFFFF) ^ h ^ (i * 0x9E3779B97F4A7C15 & 0xFFFFFFFFFFFFFFFF)) | 1


class Job:
    def __init__(self, unit, shard, cmd, env, cwd, out, timeout, requested):
        self.unit, self.shard, self.cmd, self.env, self.cwd = unit, shard, cmd, env, cwd
        self.out, self.timeout, self.requested = out, timeout, requested
        self.rc = None
        self.timed_out = False
        self.logfile = out + ".log"
        self.result = None
        self.wall = 0.0


def run_job(job):
    t0 = time.time()
    with open(job.logfile, "w") as lf:
        p = subprocess.Popen(job.cmd, cwd=job.cwd, env=job.env, stdout=lf, stderr=subprocess.STDOUT,
                             start_new_session=True)
        try:
            job.rc = p.wait(timeout=job.timeout)
        except subprocess.TimeoutExpired:
            job.timed_out = True
            try:
                os.killpg(p.pid, signal.SIGKILL)
            except OSError:
                pass
            p.wait()
            job.rc = -9
    job.wall = time.time() - t0
    if job.unit.get("kind") == "fuzz" and "-test.fuzz" in job.cmd:
        job.result = None if job.timed_out else fuzz_result(job)
        return job
    try:
        job.result = json.load(open(job.out))
    except Exception:
        job.result = None
    return job


def make_jobs(pid, unit, tier, seed, scratch, excludes, mode="search", replay_files=None):
    cfg = dict(unit.get("common", {}))
    cfg.update(unit.get(tier, {}))
    race = bool(cfg.get("race", False))
    if unit.get("kind") == "fuzz" and mode != "replay":
        race = "fuzz:" + unit["test"]
    binp = bin_path(unit["pkg"], race)
    shards = int(cfg.get("shards", 1))
    if mode == "replay" or unit.get("kind") == "fuzz":
        shards = 1
    jobs = []
    for i in range(shards):
        sdir = os.path.join(scratch, "%s-%s-%d" % (unit["name"], mode, i))
        os.makedirs(sdir, exist_ok=True)
        out = os.path.join(sdir, "result.json")
        env = dict(os.environ)
        env.update({
            "VERIF_MODE": mode,
            "VERIF_OUT": out,
            "VERIF_TIER": tier,
            "VERIF_SCRATCH": os.path.join(sdir, "tmp"),
            "VERIF_EXCLUDE": ",".join(excludes),
            "VERIF_REPO": REPO,
            "VERIF_DIR": VERIF,
            "VERIF_SHARD": str(i),
            "VERIF_SEED": str(seed),
            "VERIF_BIN": binp,
            "GORACE": "halt_on_error=1 exitcode=66",
        })
        for k, v in cfg.get("params", {}).items():
            env["VERIF_P_" + k] = str(v)
        for k, v in cfg.get("env", {}).items():
            env[k] = str(v)
        if cfg.get("gomaxprocs"):
            env["GOMAXPROCS"] = str(cfg["gomaxprocs"])
        timeout = int(cfg.get("timeout", 900 if tier == "quick" else 5400))
        cmd = [binp, "-test.run", "^%s$" % unit["test"], "-test.timeout", "%ds" % max(30, timeout - 20), "-test.count", "1"]
        requested = 0
        if mode == "replay":
            env["VERIF_REPLAY"] = ",".join(replay_files)
            timeout = max(120, 60 * len(replay_files))
        elif unit.get("kind") == "fuzz":
            # Go's native fuzzer cannot be seeded: the saved failing input is the reproducible unit
            cmd = [binp, "-test.run", "^$", "-test.fuzz", "^%s$" % unit["test"], "-test.fuzztime", "%ds" % int(cfg.get("fuzztime", 120)),
                   "-test.fuzzcachedir", os.path.join(sdir, "fuzzcache"), "-test.parallel", str(NCPU), "-test.timeout", "%ds" % max(30, timeout - 20)]
        elif unit.get("kind", "rapid") == "rapid":
            requested = int(cfg.get("checks", 100))
            cmd += ["-rapid.checks", str(requested), "-rapid.seed", str(shard_seed(seed, unit["name"], i)),
                    "-rapid.nofailfile", "-rapid.shrinktime", cfg.get("shrinktime", "30s")]
            if cfg.get("steps"):
                cmd += ["-rapid.steps", str(cfg["steps"])]
        else:  # exhaustive / custom: the test reads VERIF_SHARD / VERIF_SHARDS itself
            env["VERIF_SHARDS"] = str(shards)
        jobs.append(Job(unit, i, cmd, env, sdir, out, timeout, requested))
    return jobs


def run_jobs(jobs, workers):
    if not jobs:
        return []
    with ThreadPoolExecutor(max_workers=max(1, workers)) as ex:
        return list(ex.map(run_job, jobs))


# --------------------------------------------------------------------------
# findings
# --------------------------------------------------------------------------

def load_findings(pid):
    path = os.path.join(VERIF, "known_findings.json")
    if not os.path.exists(path):
        return []
    data = json.load(open(path))
    return [f for f in data.get("findings", []) if f.get("property") == pid]


def regression_files(pid):
    """All committed replay files of a property: findings/<ID>/ (open+fixed) and regress/<ID>/."""
    res = []
    for sub in ("findings", "regress"):
        d = os.path.join(VERIF, sub, pid)
        if os.path.isdir(d):
            for fn in sorted(os.listdir(d)):
                if fn.endswith(".json"):
                    res.append(os.path.join(d, fn))
    return res


def replay_dir(pid):
    if os.path.realpath(REPO) != "/repo":
        return os.path.join(build_dir(), "replays-scratch", pid)
    return os.path.join(VERIF, "replays", pid)


def save_replay(pid, unit_test, failure, case):
    d = replay_dir(pid)
    os.makedirs(d, exist_ok=True)
    body = {"property": pid, "unit": unit_test, "signature": failure.get("signature", ""),
            "message": failure.get("message", "")[:20000], "case": case}
    h = hashlib.sha1(json.dumps(case, sort_keys=True).encode()).hexdigest()[:16]
    path = os.path.join(d, h + ".json")
    with open(path, "w") as f:
        json.dump(body, f, indent=1)
    return path


# --------------------------------------------------------------------------
# main
# --------------------------------------------------------------------------

def main():
    ap = argparse.ArgumentParser()
    ap.add_argument("pid")
    ap.add_argument("--tier", default=os.environ.get("VERIF_TIER", "quick"), choices=["quick", "thorough"])
    ap.add_argument("--replay")
    ap.add_argument("--units", default="")
    ap.add_argument("--keep", action="store_true")
    ap.add_argument("--no-evidence", action="store_true")
    ap.add_argument("--build-only", action="store_true")
    args = ap.parse_args()
    pid = args.pid
    if pid == "ALL-BUILD":
        pkgs = set()
        for p, prop in UNITS.PROPS.items():
            for u in prop["units"]:
                for tier in ("quick",):
                    cfg = dict(u.get("common", {}))
                    cfg.update(u.get(tier, {}))
                    if cfg.get("skip"):
                        continue
                    pkgs.add((u["pkg"], bool(cfg.get("race", False))))
        ok, msg = build(pkgs)
        remove_build_products()  # the point of ALL-BUILD is the warm Go build cache, not the binaries
        if not ok:
            log(msg)
            return 2
        return 0
    if pid not in UNITS.PROPS:
        log("unknown property", pid)
        return 2
    prop = UNITS.PROPS[pid]
    tier = args.tier
    try:
        seed = int(os.environ.get("VERIF_SEED", "1"))
    except ValueError:
        seed = 1
    t0 = time.time()
    units = [u for u in prop["units"] if not dict(u.get("common", {}), **u.get(tier, {})).get("skip")]
    if args.units:
        want = set(args.units.split(","))
        units = [u for u in units if u["name"] in want]
    by_test = {u["test"]: u for u in prop["units"]}

    scratch_root = os.environ.get("VERIF_SCRATCH_ROOT") or ("/dev/shm" if os.path.isdir("/dev/shm") and os.access("/dev/shm", os.W_OK) else "/var/tmp")
    scratch = os.path.join(scratch_root, "verif-%s-%d" % (pid, os.getpid()))
    os.makedirs(scratch, exist_ok=True)

    def cleanup():
        if not args.keep:
            shutil.rmtree(scratch, ignore_errors=True)
            remove_build_products()

    try:
        return run_property(pid, prop, units, by_test, tier, seed, scratch, args, t0)
    finally:
        cleanup()


def variant_of(u, tier):
    """build variant of a unit: False, True (-race) or "fuzz:<target>"."""
    if u.get("kind") == "fuzz":
        return "fuzz:" + u["test"]
    return bool(cfg_of(u, tier).get("race", False))


def go_unquote(lit):
    """decodes a Go interpreted string literal (as written by the fuzzer's corpus encoder) into bytes"""
    assert lit[0] == '"' and lit[-1] == '"', lit[:40]
    out = bytearray()
    i, n = 1, len(lit) - 1
    simple = {"a": 7, "b": 8, "f": 12, "n": 10, "r": 13, "t": 9, "v": 11, "\\": 92, "'": 39, '"': 34}
    while i < n:
        c = lit[i]
        if c != "\\":
            out += c.encode("utf-8")
            i += 1
            continue
        e = lit[i + 1]
        if e == "x":
            out.append(int(lit[i + 2:i + 4], 16)); i += 4
        elif e == "u":
            out += chr(int(lit[i + 2:i + 6], 16)).encode("utf-8"); i += 6
        elif e == "U":
            out += chr(int(lit[i + 2:i + 10], 16)).encode("utf-8"); i += 10
        elif e in "01234567":
            out.append(int(lit[i + 1:i + 4], 8)); i += 4
        else:
            out.append(simple[e]); i += 2
    return bytes(out)


def fuzz_result(job):
    """turns the outcome of a native-fuzz job into the result shape the rapid units write"""
    text = open(job.logfile, errors="replace").read()
    execs = [int(x) for x in re.findall(r"execs: (\d+)", text)]
    inter = [int(x) for x in re.findall(r"\(total: (\d+)\)", text)]
    res = {"evaluations": execs[-1] if execs else 0, "nontrivial": 0, "hashes": [], "samples": [],
           "labels": {"native-fuzz:corpus-entries-with-new-coverage": inter[-1] if inter else 0},
           "counters": {"native-fuzz-execs": execs[-1] if execs else 0}, "excluded": {}, "inconclusive": {}}
    crashers = []
    base = os.path.join(job.cwd, "testdata", "fuzz", job.unit["test"])
    if os.path.isdir(base):
        crashers = [os.path.join(base, f) for f in sorted(os.listdir(base))]
    if crashers:
        lines = open(crashers[0], errors="surrogateescape").read().split("\n")
        data = b""
        for ln in lines[1:]:
            m = re.match(r"^\[\]byte\((.*)\)$", ln.strip())
            if m:
                data = go_unquote(m.group(1))
        import base64
        msg = text[text.find("--- FAIL"):][:6000] if "--- FAIL" in text else tail(job.logfile, 4000)
        sig = "native-fuzz/" + (re.search(r"(C\d\d/[^\s:]+)", msg).group(1) if re.search(r"(C\d\d/[^\s:]+)", msg) else "crash")
        res.update({"failed": True, "failure": {"signature": sig, "message": msg},
                    "fail_case": {"kind": "bytes", "data": base64.b64encode(data).decode()}})
        return res
    m = re.search(r"input-base64: (\S*)", text)
    if m and "--- FAIL" in text:
        msg = text[text.find("--- FAIL"):][:6000]
        g = re.search(r"(C\d\d/[^\s:]+)", msg)
        res.update({"failed": True, "failure": {"signature": "native-fuzz/" + (g.group(1) if g else "crash"), "message": msg},
                    "fail_case": {"kind": "bytes", "data": m.group(1)}})
        return res
    if job.rc != 0:
        return None  # the run failed without naming an input: reported as inconclusive by the caller
    return res


def cfg_of(u, tier):
    c = dict(u.get("common", {}))
    c.update(u.get(tier, {}))
    return c


def run_property(pid, prop, units, by_test, tier, seed, scratch, args, t0):
    # ---- replay of a single file -------------------------------------------
    if args.replay:
        rf = json.load(open(args.replay))
        u = by_test.get(rf.get("unit", "").split("/")[0])
        if u is None:
            log("INCONCLUSIVE: replay file names unknown unit %r" % rf.get("unit"))
            return 2
        ok, msg = build({(u["pkg"], bool(cfg_of(u, tier).get("race", False)))})
        if not ok:
            log("INCONCLUSIVE: " + msg)
            return 2
        job = run_jobs(make_jobs(pid, u, tier, seed, scratch, [], "replay", [os.path.abspath(args.replay)]), 1)[0]
        sys.stdout.write(open(job.logfile).read()[-6000:])
        r = (job.result or {}).get("replays") or []
        if r and r[0].get("failed"):
            log("replay failed: %s" % r[0]["failure"]["signature"])
            log("VIOLATION property=%s replay=%s" % (pid, os.path.abspath(args.replay)))
            return 1
        if r and not r[0].get("decode_err") and job.rc == 0:
            log("replay passed")
            return 0
        if job.rc not in (0, None) and not r:
            # the process died: that is what a crash replay looks like
            log("replay crashed the test process (rc=%s)" % job.rc)
            log("VIOLATION property=%s replay=%s" % (pid, os.path.abspath(args.replay)))
            return 1
        log("INCONCLUSIVE: replay could not be run (%s)" % (r[0].get("decode_err") if r else "no result"))
        return 2

    # ---- build ---------------------------------------------------------------
    pkgs = {(u["pkg"], variant_of(u, tier)) for u in units}
    # regression replays run on the non-race binary of their unit
    ok, msg = build(pkgs)
    if not ok:
        log("INCONCLUSIVE: " + msg)
        return 2
    if args.build_only:
        return 0

    findings = load_findings(pid)
    open_findings = [f for f in findings if f.get("status") == "open"]
    excludes = sorted({f["excluded_by"] for f in open_findings if f.get("excluded_by")})
    violations = []   # (signature, replay path, message)
    inconclusive = []
    known_lines = []

    # ---- regression tier: every committed replay ----------------------------
    reg_by_unit = {}
    open_by_replay = {os.path.join(VERIF, f["replay"]): f for f in open_findings if f.get("replay")}
    for path in regression_files(pid):
        try:
            rf = json.load(open(path))
        except Exception as e:
            inconclusive.append("unreadable replay %s: %s" % (path, e))
            continue
        reg_by_unit.setdefault(rf.get("unit", "").split("/")[0], []).append(path)
    reg_jobs = []
    for test, files in sorted(reg_by_unit.items()):
        u = by_test.get(test)
        if u is None or u not in units:
            if u is None:
                inconclusive.append("replay for unknown unit %s" % test)
            continue
        reg_jobs += make_jobs(pid, u, tier, seed, scratch, [], "replay", files)
    replay_count = 0
    for job in run_jobs(reg_jobs, NCPU):
        res = (job.result or {}).get("replays")
        if res is None:
            inconclusive.append("regression replay of %s did not complete (rc=%s), log: %s" % (job.unit["name"], job.rc, tail(job.logfile)))
            continue
        for r in res:
            replay_count += 1
            kf = open_by_replay.get(r["file"])
            if r.get("decode_err"):
                inconclusive.append("replay %s: %s" % (r["file"], r["decode_err"]))
            elif r.get("failed"):
                sig = r["failure"]["signature"]
                if kf is not None and sig == kf.get("signature"):
                    known_lines.append("KNOWN-FINDING: property=%s %s" % (pid, kf["what_fails"]))
                else:
                    violations.append((sig, r["file"], r["failure"]["message"]))
            else:
                if kf is not None:
                    log("note: open finding %s no longer reproduces from %s" % (kf.get("id"), r["file"]))

    # ---- search --------------------------------------------------------------
    jobs = []
    for u in units:
        jobs += make_jobs(pid, u, tier, seed, scratch, excludes)
    # big shards first
    workers = int(os.environ.get("VERIF_WORKERS", NCPU))
    done = run_jobs(jobs, workers)

    merged = {"evaluations": 0, "labels": {}, "counters": {}, "excluded": {}, "inconclusive": {}, "samples": [],
              "units": {}, "shrink_runs": 0}
    hashes = set()
    exhaustive_units = []
    for job in done:
        uname = job.unit["name"]
        ucfg = cfg_of(job.unit, tier)
        um = merged["units"].setdefault(uname, {"evaluations": 0, "shards": 0, "nontrivial": 0, "wall_s": 0.0,
                                                "test": job.unit["test"], "requested_per_shard": job.requested,
                                                "race": bool(ucfg.get("race", False))})
        um["shards"] += 1
        um["wall_s"] = round(max(um["wall_s"], job.wall), 1)
        r = job.result
        if r is None:
            crash = classify_crash(job)
            if crash == "race":
                path = save_text_replay(pid, job, "data race reported by the race detector")
                violations.append(("race-detector", path, tail(job.logfile, 3000)))
            elif crash == "panic":
                cur = job.out + ".current"
                if os.path.exists(cur):
                    rf = json.load(open(cur))
                    path = save_replay(pid, job.unit["test"], {"signature": "process-crash", "message": tail(job.logfile, 8000)}, rf["case"])
                else:
                    path = save_text_replay(pid, job, "process crashed")
                violations.append(("process-crash", path, tail(job.logfile, 3000)))
            else:
                # keep the whole log of a shard that died or hung: it is the only evidence of what it was doing
                try:
                    d = os.path.join(build_dir(), "inconclusive")
                    os.makedirs(d, exist_ok=True)
                    shutil.copy(job.logfile, os.path.join(d, "%s-shard%d-%d.log" % (uname, job.shard, int(time.time()))))
                except Exception:
                    pass
                inconclusive.append("%s shard %d: no result (rc=%s, timed_out=%s) %s" % (uname, job.shard, job.rc, job.timed_out, tail(job.logfile, 1500)))
            continue
        um["evaluations"] += r["evaluations"]
        um["nontrivial"] += r["nontrivial"]
        merged["evaluations"] += r["evaluations"]
        merged["shrink_runs"] += r.get("shrink_runs", 0)
        for k in ("labels", "counters", "excluded", "inconclusive"):
            for a, b in (r.get(k) or {}).items():
                merged[k][a] = merged[k].get(a, 0) + b
        for h in r.get("hashes") or []:
            hashes.add(uname + ":" + h)
        if r.get("exhaustive"):
            exhaustive_units.append(uname)
        for s in (r.get("samples") or [])[:2]:
            if len(merged["samples"]) < 8:
                merged["samples"].append({"unit": uname, "case": s})
        if r.get("failed") and r["failure"]["signature"].startswith("harness/"):
            # the harness could not set the case up (time-outs under load, ...): not a judgement about liftbridge
            inconclusive.append("%s shard %d: %s: %s" % (uname, job.shard, r["failure"]["signature"], r["failure"]["message"][:300]))
        elif r.get("failed"):
            path = save_replay(pid, job.unit.get("replay_test", job.unit["test"]), r["failure"], r.get("fail_case"))
            violations.append((r["failure"]["signature"], path, r["failure"]["message"]))
        else:
            if classify_crash(job) == "race":
                path = save_text_replay(pid, job, "data race reported by the race detector")
                violations.append(("race-detector", path, tail(job.logfile, 3000)))
            elif job.rc != 0:
                inconclusive.append("%s shard %d exited rc=%s without a recorded failure: %s" % (uname, job.shard, job.rc, tail(job.logfile, 1500)))
            elif job.requested and r["evaluations"] < job.requested:
                inconclusive.append("%s shard %d ran %d of %d requested cases" % (uname, job.shard, r["evaluations"], job.requested))

    # too many cases that the harness could not judge make the run inconclusive
    ninc = sum(merged["inconclusive"].values())
    if merged["evaluations"] and ninc * 5 > merged["evaluations"]:
        inconclusive.append("%d of %d cases were not judged: %s" % (ninc, merged["evaluations"], merged["inconclusive"]))
    # generator health: required labels
    for lab, minfrac in (prop.get("require_labels", {}).get(tier) or prop.get("require_labels", {}).get("any") or {}).items():
        have = merged["labels"].get(lab, 0)
        if merged["evaluations"] and have < minfrac * merged["evaluations"]:
            inconclusive.append("generator health: label %r on %d of %d cases (< %.3f)" % (lab, have, merged["evaluations"], minfrac))

    wall = time.time() - t0
    # ---- report ----------------------------------------------------------------
    seen = set()
    nviol = 0
    for line in sorted(set(known_lines)):
        log(line)
    for sig, path, msg in violations:
        if sig in seen:
            continue
        seen.add(sig)
        nviol += 1
        log("---- violation %s ----" % sig)
        log(msg[:3000])
        log("VIOLATION property=%s replay=%s" % (pid, path))
    for m in inconclusive:
        log("INCONCLUSIVE: " + m)

    if not args.no_evidence and not args.units:
        level = prop.get("level", {}).get(tier, "exploration") if isinstance(prop.get("level"), dict) else prop.get("level", "exploration")
        ev = {
            "property_id": pid,
            "tier": tier,
            "seed": seed,
            "level": level,
            "coverage": {
                "evaluations": merged["evaluations"],
                "distinct_nontrivial": len(hashes),
                "rule": prop["rule"],
                "samples": merged["samples"],
                "labels": dict(sorted(merged["labels"].items())),
                "counters": dict(sorted(merged["counters"].items())),
                "excluded_by_open_finding": merged["excluded"],
                "exclusion_switches_on": excludes,
                "inconclusive_cases": merged["inconclusive"],
                "exhaustive": bool(exhaustive_units) and set(exhaustive_units) == set(merged["units"].keys()),
                "exhaustive_units": sorted(set(exhaustive_units)),
                "units": merged["units"],
                "regression_replays_run": replay_count,
                "known_findings_reproduced": len(set(known_lines)),
                "shrink_runs": merged["shrink_runs"],
                "infrastructure_problems": inconclusive,
            },
            "assumptions": prop.get("assumptions", []),
            "wall_s": round(wall, 1),
            "violations": nviol,
        }
        os.makedirs(os.path.join(VERIF, "evidence"), exist_ok=True)
        tmp = os.path.join(VERIF, "evidence", pid + ".json.tmp")
        with open(tmp, "w") as f:
            json.dump(ev, f, indent=1, sort_keys=False)
            f.write("\n")
        os.replace(tmp, os.path.join(VERIF, "evidence", pid + ".json"))
    log("%s %s: %d cases, %d distinct non-trivial, %d replays, %d violation(s), %d known finding(s), %d inconclusive note(s), %.1fs" % (
        pid, tier, merged["evaluations"], len(hashes), replay_count, nviol, len(set(known_lines)), len(inconclusive), wall))
    if nviol:
        return 1
    if inconclusive:
        return 2
    return 0


def tail(path, n=800):
    try:
        s = open(path, errors="replace").read()
    except OSError:
        return ""
    return s[-n:]


def classify_crash(job):
    s = tail(job.logfile, 200000)
    if "WARNING: DATA RACE" in s:
        return "race"
    if job.timed_out:
        return "timeout"
    if re.search(r"^(panic:|fatal error:)", s, re.M) and "goroutine " in s and "test timed out" not in s:
        return "panic"
    return "other"


def save_text_replay(pid, job, what):
    d = replay_dir(pid)
    os.makedirs(d, exist_ok=True)
    path = os.path.join(d, "%s-shard%d-%d.log" % (job.unit["name"], job.shard, int(time.time())))
    with open(path, "w") as f:
        f.write("# %s\n# command: %s\n# rapid seed and VERIF_* env: %s\n" % (
            what, " ".join(job.cmd), {k: v for k, v in job.env.items() if k.startswith("VERIF_") or k in ("GOMAXPROCS",)}))
        f.write(tail(job.logfile, 100000))
    return path


if __name__ == "__main__":
    sys.exit(main())
