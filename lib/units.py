"""Per-property unit configuration for the driver (see DESIGN.md §4)."""

TRUST = [
    "the Go toolchain, runtime and race detector; pgregory.net/rapid's generators and shrinker",
    "NATS server/client, hashicorp/raft, BoltDB, protobuf runtime and the file system are trusted, not checked",
]

PROPS = {}
HOOK_COMMITS = []
NOT_YET = {}

PROPS["C14"] = {
    "level": "exploration",
    "technique": "property-based testing: differential against a reference decoder + round-trip + CRC metamorphic relation (rapid), native fuzzing in thorough",
    "level_text": ("generated-input search: ~10^6 structured byte strings per quick run through all 15 envelope decoders, compared with an "
                   "independent reference decoder written from the protocol document; round-trip of generated values of every type; "
                   "single-bit CRC corruption. Exploration, not proof: absence of a crashing input is not established."),
    "level_note": "trusts protobuf decoding of the payload, the Go runtime, rapid; HeaderLen<8 is treated as not-an-envelope",
    "rule": ("rapid-generated cases of three kinds: (bytes) byte strings built from envelope parts - magic correct/one byte off/random, "
             "version, ANY HeaderLen byte, any flags, any MsgType, CRC correct/wrong/partial/missing, payload = valid protobuf of a "
             "random envelope type / truncated / random / empty, optional truncation of the whole - fed to all 15 Unmarshal* "
             "functions and compared with a reference decoder written from documentation/envelope_protocol.md; (roundtrip) a "
             "reflectively generated value of each of the 15 envelope types through Marshal*/Unmarshal*; (crc) the same value with "
             "the optional CRC-32C header and one flipped bit. Server-level unit: the same bytes through natsToProtoMessage. "
             "Non-trivial = a bytes case that starts with the correct magic+version and is not a plain valid minimal-header "
             "envelope, or any roundtrip/crc case; distinct = SHA-1 of the case encoding."),
    "assumptions": TRUST + ["protobuf (golang/protobuf + generated gogo code) decoding of a payload is trusted as the reference for payload contents",
                            "HeaderLen < 8 (payload overlapping the fixed header) is treated as not-an-envelope, per the documented 8-byte minimum header"],
    "units": [
        {"name": "C14a", "pkg": "server/protocol", "test": "TestVerifC14a",
         "quick": {"shards": 16, "checks": 60000}, "thorough": {"shards": 16, "checks": 600000, "timeout": 3000}},
    ],
}
