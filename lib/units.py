"""Per-property unit configuration for the driver (see DESIGN.md §4)."""

TRUST = [
    "the Go toolchain, runtime and race detector; pgregory.net/rapid's generators and shrinker",
    "NATS server/client, hashicorp/raft, BoltDB, protobuf runtime and the file system are trusted, not checked",
]

PROPS = {}
HOOK_COMMITS = []
NOT_YET = {}

PROPS["C14"] = {
    "level": "exploration",
    "technique": "property-based testing: differential against a reference decoder + round-trip + CRC metamorphic relation (rapid), native fuzzing in thorough",
    "level_text": ("generated-input search: ~10^6 structured byte strings per quick run through all 15 envelope decoders, compared with an "
                   "independent reference decoder written from the protocol document; round-trip of generated values of every type; "
                   "single-bit CRC corruption. Exploration, not proof: absence of a crashing input is not established."),
    "level_note": "trusts protobuf decoding of the payload, the Go runtime, rapid; HeaderLen<8 is treated as not-an-envelope",
    "rule": ("rapid-generated cases of three kinds: (bytes) byte strings built from envelope parts - magic correct/one byte off/random, "
             "version, ANY HeaderLen byte, any flags, any MsgType, CRC correct/wrong/partial/missing, payload = valid protobuf of a "
             "random envelope type / truncated / random / empty, optional truncation of the whole - fed to all 15 Unmarshal* "
             "functions and compared with a reference decoder written from documentation/envelope_protocol.md; (roundtrip) a "
             "reflectively generated value of each of the 15 envelope types through Marshal*/Unmarshal*; (crc) the same value with "
             "the optional CRC-32C header and one flipped bit. Server-level unit: the same bytes through natsToProtoMessage. "
             "Non-trivial = a bytes case that starts with the correct magic+version and is not a plain valid minimal-header "
             "envelope, or any roundtrip/crc case; distinct = SHA-1 of the case encoding."),
    "assumptions": TRUST + ["protobuf (golang/protobuf + generated gogo code) decoding of a payload is trusted as the reference for payload contents",
                            "HeaderLen < 8 (payload overlapping the fixed header) is treated as not-an-envelope, per the documented 8-byte minimum header"],
    "units": [
        {"name": "C14a", "pkg": "server/protocol", "test": "TestVerifC14a",
         "quick": {"shards": 16, "checks": 60000}, "thorough": {"shards": 16, "checks": 600000, "timeout": 3000}},
    ],
}

PROPS["C01"] = {
    "level": "exploration",
    "technique": "model-based stateful property testing (rapid): operation sequences against a reference model, whole-state comparison after every step",
    "level_text": ("generated operation sequences (append batches, replicated message-set appends, truncations at selected offsets, close/reopen with a "
                   "different segment size, HW moves, reader probes) on a real on-disk commit log, compared after EVERY step with an in-memory "
                   "reference model: returned offsets, Newest/Oldest/HW, a full read-back with byte-equal key/value/headers/timestamp/epoch, "
                   "committed and uncommitted readers from selected starts, segment files and their sizes, epoch-cache invariants"),
    "level_note": "sequential histories only (concurrency is C03); trusts the file system; timestamps/epochs non-decreasing and reader starts >= 0 as every caller produces them; truncation never below the HW",
    "rule": ("rapid draws max segment bytes from {1,64,150,300,1024,65536,default} and 1-40 (thorough 1-120) ops: append(1-8 msgs; key nil/empty/short/300B, "
             "value nil/empty/5B-2KiB/70KiB, headers nil/empty/1-3 with empty/short/1100B values, equal or increasing timestamps, epoch bumps), appendset "
             "(1-6 msgs encoded as a follower receives them), truncate(class: any/inside batch/segment base+-1/batch start/beyond end), reopen(optionally new "
             "segment size), sethw, probe(start class, committed or not). Non-trivial = the case rolled at least one segment AND contains one of: truncate "
             "strictly inside a batch, truncate at a segment base, reopen after a truncate, message-set append that rolled, probe starting at/inside a "
             "non-first segment. distinct = SHA-1 of the case encoding."),
    "assumptions": TRUST + ["process keeps running (crashes are C05)", "no compaction/retention in this flavour (C08/C09)"],
    "units": [
        {"name": "C01", "pkg": "server/commitlog", "test": "TestVerifC01",
         "quick": {"shards": 16, "checks": 1500}, "thorough": {"shards": 16, "checks": 12000, "timeout": 3000}},
    ],
}

PROPS["C09"] = {
    "level": "exploration",
    "technique": "model-based property testing (rapid): generated segment layouts x limit combinations placed at/around the layout's cumulative sums, closed-form expected cut",
    "level_text": ("generated layouts (1-20 segments of 1-9 messages with varying byte sizes and timestamps) and every combination of the bytes/messages/age "
                   "limits with values placed exactly at, one below and one above the layout's suffix sums / segment last-timestamps (plus tiny and huge), 1-6 "
                   "cleans with further appends in between; the expected cut k* = max(k_age,k_msgs,k_bytes) capped at n-1 is computed on the model and the "
                   "survivors must be exactly segments [k*,n), byte-identical, readable from every start offset"),
    "level_note": "timestamps non-decreasing (leader-stamped); computeTTL is replaced by a fixed cut-off through the package variable meant for it; cleans concurrent with appends only in the thorough -race unit",
    "rule": ("rapid draws max segment bytes from {1,64,150,300,1024}, 1-3 rounds of (0-18 appends of 1-3 messages, optional reopen, optional HW move, 1-2 Clean() calls "
             "whose limits are selectors resolved against the current model layout). Non-trivial = a clean on >=3 segments with >=1 limit active whose expected "
             "cut is neither 0 nor n-1. Labels report all 7 limit combinations and each placement class."),
    "assumptions": TRUST,
    "units": [
        {"name": "C09", "pkg": "server/commitlog", "test": "TestVerifC09",
         "quick": {"shards": 16, "checks": 1500}, "thorough": {"shards": 16, "checks": 15000, "timeout": 3000}},
    ],
}
PROPS["C08"] = {
    "level": "exploration",
    "technique": "model-based property testing (rapid): key patterns x layouts x HW x workers, Must/May set oracle + reader consistency from every start offset",
    "level_text": ("generated key patterns (nil, empty, 4 short keys, a 200-byte key, runs of one key), 2-30 segments, HW anywhere, 1/2/4/10 compaction workers, "
                   "repeated cleans with HW moves and appends in between, optionally with retention limits; oracle: Must (keyless, >=HW, newest segment, latest "
                   "committed per key) is a subset of the survivors, survivors are a subset of the log before, unchanged and ordered; then forward uncommitted, "
                   "forward committed and reverse committed readers from every start offset return exactly the survivors in range"),
    "level_note": "empty-but-non-nil keys are generated although only the commit-log API can store them; compaction concurrent with appends only in the thorough -race unit",
    "rule": ("rapid draws max segment bytes from {1,64,150,300,1024}, 1-3 rounds of (appends of 1-4 keyed messages with run-length bias, HW moves, optional reopen, a "
             "compacting Clean() with generated worker count, 0-2 repeat cleans). Non-trivial = a compaction over >=3 segments with the HW strictly inside the log "
             "and some key occurring at or below the HW in two different segments."),
    "assumptions": TRUST,
    "units": [
        {"name": "C08", "pkg": "server/commitlog", "test": "TestVerifC08",
         "quick": {"shards": 16, "checks": 1000}, "thorough": {"shards": 16, "checks": 10000, "timeout": 3000}},
    ],
}

PROPS["C10"] = {
    "level": "exploration",
    "technique": "property-based testing (rapid): log shape x subscription request products against a reference function over the surviving messages",
    "level_text": "TODO",
    "level_note": "TODO",
    "rule": "TODO",
    "assumptions": TRUST,
    "claimed": False,
    "units": [
        {"name": "C10cl", "pkg": "server/commitlog", "test": "TestVerifC10cl",
         "quick": {"shards": 16, "checks": 600}, "thorough": {"shards": 16, "checks": 6000, "timeout": 3000}},
        {"name": "C10", "pkg": "server", "test": "TestVerifC10",
         "quick": {"shards": 16, "checks": 250}, "thorough": {"shards": 16, "checks": 5000, "timeout": 3000}},
    ],
}

PROPS["C16"] = {
    "level": "exploration",
    "technique": "model-based property testing (rapid) at the commit-log level + concurrent racing publishers against an invariant over acks and the final log",
    "level_text": "TODO",
    "level_note": "TODO",
    "rule": "TODO",
    "assumptions": TRUST,
    "claimed": False,
    "units": [
        {"name": "C16a", "pkg": "server/commitlog", "test": "TestVerifC16a",
         "quick": {"shards": 8, "checks": 1500}, "thorough": {"shards": 16, "checks": 20000, "timeout": 3000}},
    ],
}
PROPS["C03"] = {
    "level": "exploration",
    "technique": "model-based stateful property testing (rapid) with persistent committed readers + concurrent monitor under the race detector",
    "level_text": "TODO",
    "level_note": "TODO",
    "rule": "TODO",
    "assumptions": TRUST,
    "claimed": False,
    "units": [
        {"name": "C03a", "pkg": "server/commitlog", "test": "TestVerifC03a",
         "quick": {"shards": 16, "checks": 800}, "thorough": {"shards": 16, "checks": 8000, "timeout": 3000}},
        {"name": "C03b", "pkg": "server/commitlog", "test": "TestVerifC03b", "common": {"race": True},
         "quick": {"shards": 8, "checks": 60}, "thorough": {"shards": 16, "checks": 600, "timeout": 3000}},
    ],
}

PROPS["C17"] = {
    "level": "exploration",
    "technique": "property-based testing (rapid): round-trip, no-plaintext and single-byte tamper / wrong-key metamorphic relations",
    "level_text": "TODO",
    "level_note": "TODO",
    "rule": "TODO",
    "assumptions": TRUST,
    "claimed": False,
    "units": [
        {"name": "C17a", "pkg": "server/encryption", "test": "TestVerifC17a",
         "quick": {"shards": 16, "checks": 3000}, "thorough": {"shards": 16, "checks": 100000, "timeout": 3000}},
    ],
}

PROPS["C19"] = {
    "level": "exploration",
    "technique": "property-based testing (rapid): disable-route x value products against an effective-setting model, recorded HTTP transport, payload key whitelist + marker taint check",
    "level_text": "TODO",
    "level_note": "TODO",
    "rule": "TODO",
    "assumptions": TRUST,
    "claimed": False,
    "units": [
        {"name": "C19a", "pkg": "server/telemetry", "test": "TestVerifC19a",
         "quick": {"shards": 8, "checks": 100}, "thorough": {"shards": 16, "checks": 2000, "timeout": 3000}},
        {"name": "C19cfg", "pkg": "server", "test": "TestVerifC19cfg",
         "quick": {"shards": 2, "checks": 400}, "thorough": {"shards": 4, "checks": 4000}},
    ],
}

PROPS["C12"] = {
    "level": "exploration",
    "technique": "model-based stateful property testing (rapid) + bounded-exhaustive enumeration of short histories; invariant over assignments + determinism between two replicas",
    "level_text": "TODO",
    "level_note": "TODO",
    "rule": "TODO",
    "assumptions": TRUST,
    "claimed": False,
    "units": [
        {"name": "C12", "pkg": "server", "test": "TestVerifC12",
         "quick": {"shards": 16, "checks": 2000}, "thorough": {"shards": 16, "checks": 20000, "timeout": 3000}},
    ],
}

PROPS["C13"] = {
    "level": "exploration",
    "technique": "model-based stateful property testing (rapid) of group subscribes/cancels/ends + concurrent interval monitor under the race detector",
    "level_text": "TODO",
    "level_note": "TODO",
    "rule": "TODO",
    "assumptions": TRUST,
    "claimed": False,
    "units": [
        {"name": "C13a", "pkg": "server", "test": "TestVerifC13a",
         "quick": {"shards": 16, "checks": 300}, "thorough": {"shards": 16, "checks": 10000, "timeout": 3000}},
    ],
}

PROPS["C06"] = {
    "level": "exploration",
    "technique": "model-based property testing (rapid): generated valid metadata histories x snapshot/restart splits; determinism, restart-stability and replay-safety relations over the observable metadata view",
    "level_text": "TODO",
    "level_note": "TODO",
    "rule": "TODO",
    "assumptions": TRUST,
    "claimed": False,
    "units": [
        {"name": "C06", "pkg": "server", "test": "TestVerifC06",
         "quick": {"shards": 16, "checks": 150}, "thorough": {"shards": 16, "checks": 5000, "timeout": 3000}},
    ],
}

PROPS["C15"] = {
    "level": "exploration",
    "technique": "property-based testing (rapid): random policy sets x API call sequences on a started server; exact-match policy model as oracle, state digest before/after denied calls, sentinel publishes",
    "level_text": "TODO",
    "level_note": "TODO",
    "rule": "TODO",
    "assumptions": TRUST,
    "claimed": False,
    "units": [
        {"name": "C15", "pkg": "server", "test": "TestVerifC15",
         "quick": {"shards": 4, "checks": 60}, "thorough": {"shards": 16, "checks": 600, "timeout": 3000}},
        {"name": "C15cfg", "pkg": "server", "test": "TestVerifC15cfg",
         "quick": {"shards": 2, "checks": 300}, "thorough": {"shards": 4, "checks": 3000}},
    ],
}
