"""Per-property unit configuration for the driver (see DESIGN.md §4)."""

TRUST = [
    "the Go toolchain, runtime and race detector; pgregory.net/rapid's generators and shrinker",
    "NATS server/client, hashicorp/raft, BoltDB, protobuf runtime and the file system are trusted, not checked",
]

PROPS = {}
HOOK_COMMITS = ["cb99e5e"]
NOT_YET = {}


PROPS["C14"] = {
    "level": "exploration",
    "technique": "property-based testing: differential against a reference decoder + round-trip + CRC metamorphic relation (rapid), native fuzzing in thorough",
    "level_text": ("generated-input search: ~10^6 structured byte strings per quick run through all 15 envelope decoders, compared with an "
                   "independent reference decoder written from the protocol document; round-trip of generated values of every type; "
                   "single-bit CRC corruption. Exploration, not proof: absence of a crashing input is not established."),
    "level_note": "trusts protobuf decoding of the payload, the Go runtime, rapid; HeaderLen<8 is treated as not-an-envelope",
    "rule": ("rapid-generated cases of three kinds: (bytes) byte strings built from envelope parts - magic correct/one byte off/random, "
             "version, ANY HeaderLen byte, any flags, any MsgType, CRC correct/wrong/partial/missing, payload = valid protobuf of a "
             "random envelope type / truncated / random / empty, optional truncation of the whole - fed to all 15 Unmarshal* "
             "functions and compared with a reference decoder written from documentation/envelope_protocol.md; (roundtrip) a "
             "reflectively generated value of each of the 15 envelope types through Marshal*/Unmarshal*; (crc) the same value with "
             "the optional CRC-32C header and one flipped bit. Server-level units: the same bytes through natsToProtoMessage, after which the decoded message is appended to a commit log and read back the way a subscription reads it (key, value and every header must come back; one case in 41 is an envelope at the limits of the log's message format: header keys of 32766-70000 bytes, 32765-65536 headers, header values up to 1 MiB - what the format cannot hold must be stored verbatim), and (C14e) 1-10 of them published to the NATS subject of a stream on a started server, followed by an AckPolicy-ALL publish, a subscription that must deliver every payload as predicted, and a metadata fetch (one publish envelope in six carries an ack inbox that is not a NATS subject: line breaks, blanks, empty tokens, NUL; the streams have a wildcard subject and one payload in six is a well-formed publish envelope with an ack inbox published to a subject whose last token is not valid UTF-8; one payload in five is a well-formed publish envelope whose header map has entries without the value field, without the key field or empty - legal protobuf that another encoder may write); (C14h) byte strings that do not decode as the respective envelope type handed to the eight handlers of the internal NATS subjects (replication request/response, leader-epoch offsets, propagated operations, server info, partition status, partition notification, Raft join): the handler must return without panicking - a weak guard, since the decoders return a zero value next to the error. "
             "Non-trivial = a bytes case that starts with the correct magic+version and is not a plain valid minimal-header "
             "envelope, or any roundtrip/crc case; distinct = SHA-1 of the case encoding."),
    "assumptions": TRUST + ["protobuf (golang/protobuf + generated gogo code) decoding of a payload is trusted as the reference for payload contents",
                            "HeaderLen < 8 (payload overlapping the fixed header) is treated as not-an-envelope, per the documented 8-byte minimum header"],
    "units": [
        {"name": "C14a", "pkg": "server/protocol", "test": "TestVerifC14a",
         "quick": {"shards": 16, "checks": 60000}, "thorough": {"shards": 16, "checks": 600000, "timeout": 3000}},
        {"name": "C14d", "pkg": "server", "test": "TestVerifC14d",
         "quick": {"shards": 8, "checks": 20000}, "thorough": {"shards": 16, "checks": 300000, "timeout": 3000}},
        {"name": "C14e", "pkg": "server", "test": "TestVerifC14e",
         "quick": {"shards": 4, "checks": 25}, "thorough": {"shards": 16, "checks": 300, "timeout": 3000}},
        # the handlers of the internal NATS subjects, fed byte strings that do not decode as their envelope type
        {"name": "C14h", "pkg": "server", "test": "TestVerifC14h",
         "quick": {"shards": 4, "checks": 5000}, "thorough": {"shards": 16, "checks": 60000, "timeout": 3000}},
        # Go's native coverage-guided fuzzer over the same differential oracle; thorough tier only, wall-clock bounded
        {"name": "C14fuzz", "pkg": "server/protocol", "test": "FuzzVerifC14", "kind": "fuzz", "replay_test": "TestVerifC14a",
         "quick": {"skip": True}, "thorough": {"fuzztime": 240, "timeout": 900}},
    ],
}

PROPS["C01"] = {
    "level": "exploration",
    "technique": "model-based stateful property testing (rapid): operation sequences against a reference model, whole-state comparison after every step; plus bounded-exhaustive enumeration of short sequences through the same oracle",
    "level_text": ("generated operation sequences (append batches, replicated message-set appends, truncations at selected offsets, close/reopen with a "
                   "different segment size, HW moves, reader probes) on a real on-disk commit log, compared after EVERY step with an in-memory "
                   "reference model: returned offsets, Newest/Oldest/HW, a full read-back with byte-equal key/value/headers/timestamp/epoch, "
                   "committed and uncommitted readers from selected starts, long-lived committed readers that stay parked across later appends, rolls and HW moves (created at, below or beyond the HW, also on an empty log) and must continue without a gap or duplicate, an uncommitted reader blocked at the log end while the active segment is rolled without a write (what segment.max.age does) and messages are appended afterwards, segment files and their sizes, epoch-cache invariants. Unit C01exh runs EVERY sequence of up to 4 (thorough: 5) operations over an 18-letter alphabet on 150-byte segments (four appends incl. a 3-message batch with an epoch change and a replicated set that straddles a roll; truncation inside a batch, at and around segment bases, at a batch start, at the end; reopen with the same or a 64-byte segment size; HW by one or to the end; committed and uncommitted probes; a parked committed reader and its reads) through the same executor and oracle"),
    "level_note": "sequential histories only (concurrency is C03); trusts the file system; timestamps/epochs non-decreasing and reader starts >= 0 as every caller produces them; truncation never below the HW",
    "rule": ("rapid draws max segment bytes from {1,64,150,300,1024,65536,default} and 1-40 (thorough 1-120) ops: append(1-8 msgs; key nil/empty/short/300B, "
             "value nil/empty/5B-2KiB/70KiB, headers nil/empty/1-3 with empty/short/1100B values, equal or increasing timestamps, epoch bumps), appendset "
             "(1-6 msgs encoded as a follower receives them), truncate(class: any/inside batch/segment base+-1/batch start/beyond end), reopen(optionally new "
             "segment size), sethw, probe(start class, committed or not), newreader/read (parked committed readers; those positioned before a truncation point stay parked across the truncation, the others and all readers at a reopen are dropped), parksplit(uncommitted reader at the newest offset, roll of the active segment, append of 1-3 msgs: the reader must deliver them in order within 20 s). Non-trivial = the case rolled at least one segment AND contains one of: truncate "
             "strictly inside a batch, truncate at a segment base, reopen after a truncate, message-set append that rolled, probe starting at/inside a "
             "non-first segment. distinct = SHA-1 of the case encoding. C01exh: 24,700 sequences (quick) / 444,604 (thorough) that start with an append, complete for its alphabet and length bound (coverage.exhaustive_units)."),
    "assumptions": TRUST + ["process keeps running (crashes are C05)", "no compaction/retention in this flavour (C08/C09)"],
    "units": [
        {"name": "C01", "pkg": "server/commitlog", "test": "TestVerifC01",
         "quick": {"shards": 16, "checks": 1500}, "thorough": {"shards": 16, "checks": 12000, "timeout": 3000}},
        # bounded-exhaustive: every sequence of <= LEN operations over an 18-letter alphabet on 150-byte segments
        {"name": "C01exh", "pkg": "server/commitlog", "test": "TestVerifC01Exh", "kind": "exhaustive",
         "quick": {"shards": 16, "params": {"LEN": 4}}, "thorough": {"shards": 16, "params": {"LEN": 5}, "timeout": 3000}},
    ],
}

PROPS["C09"] = {
    "level": "exploration",
    "technique": "model-based property testing (rapid): generated segment layouts x limit combinations placed at/around the layout's cumulative sums, closed-form expected cut; plus bounded-exhaustive enumeration of short operation sequences through the same oracle",
    "level_text": ("generated layouts (1-20 segments of 1-9 messages with varying byte sizes and timestamps) and every combination of the bytes/messages/age "
                   "limits with values placed exactly at, one below and one above the layout's suffix sums / segment last-timestamps (plus tiny and huge), 1-6 "
                   "cleans with further appends in between; the expected cut k* = max(k_age,k_msgs,k_bytes) capped at n-1 is computed on the model and the "
                   "survivors must be exactly segments [k*,n), byte-identical, readable from every start offset; one clean in six is preceded by a cleaning cycle in which deleting one non-active segment fails (its log file is closed behind its back) - once the fault is gone the clean proper must succeed and the directory must hold exactly the log's segments. Unit C09crash (child processes killed at every hit of every crash point inside a retention clean, the machinery of C05): what a restart finds holds every message that had to survive and is one contiguous run of offsets. Unit C09exh: a fixed layout of four appends, then EVERY sequence of up to 3 (thorough: 4) letters of a 20-letter alphabet (appends incl. one whose timestamps go back at an epoch bump, reopen, HW move, 13 cleans: byte / message / age limits exactly at, one below and one above a cumulative sum of the layout, an age clean with an append while it runs, all three limits together, the tiny and the all-expired extremes), for 150- and 64-byte segments, through the same executor and oracle"),
    "level_note": "timestamps non-decreasing except at an epoch bump (a new leader whose clock is behind); computeTTL is replaced by a fixed cut-off through the package variable meant for it; unit C09b (-race, both tiers): message-count retention concurrent with an appending goroutine: what is left is a gap-free suffix of what was appended, the newest message included",
    "rule": ("rapid draws max segment bytes from {1,64,150,300,1024}, 1-3 rounds of (0-18 appends of 1-3 messages, optional reopen, optional HW move, 1-2 Clean() calls "
             "whose limits are selectors resolved against the current model layout). Non-trivial = a clean on >=3 segments with >=1 limit active whose expected "
             "cut is neither 0 nor n-1. Labels report all 7 limit combinations and each placement class."),
    "assumptions": TRUST,
    "units": [
        {"name": "C09", "pkg": "server/commitlog", "test": "TestVerifC09",
         "quick": {"shards": 16, "checks": 1500}, "thorough": {"shards": 16, "checks": 15000, "timeout": 3000}},
        # bounded-exhaustive: a fixed 4-append layout, then every sequence of <= LEN letters of a 20-letter alphabet, for 150- and 64-byte segments
        # crash inside a retention clean (the child-process machinery of C05): what a restart finds is a contiguous suffix
        {"name": "C09crash", "pkg": "server/commitlog", "test": "TestVerifC09Crash",
         "quick": {"shards": 16, "checks": 3}, "thorough": {"shards": 16, "checks": 100, "timeout": 3400}},
        {"name": "C09exh", "pkg": "server/commitlog", "test": "TestVerifC09Exh", "kind": "exhaustive",
         "quick": {"shards": 16, "params": {"LEN": 3}}, "thorough": {"shards": 16, "params": {"LEN": 4}, "timeout": 3000}},
        {"name": "C09b", "pkg": "server/commitlog", "test": "TestVerifC09b", "common": {"race": True},
         "quick": {"shards": 8, "checks": 60}, "thorough": {"shards": 16, "checks": 1500, "timeout": 3000}},
    ],
}
PROPS["C08"] = {
    "level": "exploration",
    "technique": "model-based property testing (rapid): key patterns x layouts x HW x workers, Must/May set oracle + reader consistency from every start offset; plus bounded-exhaustive enumeration of short operation sequences through the same oracle",
    "level_text": ("generated key patterns (nil, empty, 4 short keys, a 200-byte key, runs of one key), 2-30 segments, HW anywhere, 1/2/4/10 compaction workers, "
                   "repeated cleans with HW moves and appends in between, optionally with retention limits; oracle: Must (keyless, >=HW, newest segment, latest "
                   "committed per key) is a subset of the survivors, survivors are a subset of the log before, unchanged and ordered; then forward uncommitted, "
                   "forward committed and reverse committed readers from every start offset return exactly the survivors in range; committed readers that have already delivered part of the log stay parked across the cleans (also cleans that replace the segment they are in, with appends during the clean) and must continue with the next survivor, once. Unit C08crash (child processes killed at every hit of every crash point inside a compacting clean, the machinery of C05): the log a restart finds holds, unchanged and at their offsets, all messages that had to survive the compaction, nothing that was never appended, and stays usable. Unit C08exh: three keyed appends, then EVERY sequence of up to 4 (thorough: 5) letters of a 14-letter alphabet (appends with two keys and a keyless message, the empty key in a segment of its own, a run of one key, a keyless message; HW by one or to the end; reopen; compaction with 1 or 4 workers or with a byte limit; a parked committed reader, its reads, a probe) through the same executor and oracle"),
    "level_note": "empty-but-non-nil keys are generated although only the commit-log API can store them; unit C08b (-race, both tiers): Clean() with 1-3 repetitions runs while another goroutine appends and rolls segments; schedule-independent oracle (survivors are original messages in order, everything that had to survive is there, the log stays usable and reopens to the same content)",
    "rule": ("rapid draws max segment bytes from {1,64,150,300,1024}, 1-3 rounds of (appends of 1-4 keyed messages with run-length bias, HW moves, optional reopen, a "
             "compacting Clean() with generated worker count, 0-2 repeat cleans). Non-trivial = a compaction over >=3 segments with the HW strictly inside the log "
             "and some key occurring at or below the HW in two different segments."),
    "assumptions": TRUST,
    "units": [
        {"name": "C08", "pkg": "server/commitlog", "test": "TestVerifC08",
         "quick": {"shards": 16, "checks": 1000}, "thorough": {"shards": 16, "checks": 10000, "timeout": 3000}},
        # bounded-exhaustive: three keyed appends, then every sequence of <= LEN letters of a 14-letter alphabet
        # crash inside a compaction (the child-process machinery of C05): everything that had to survive is there after a restart
        {"name": "C08crash", "pkg": "server/commitlog", "test": "TestVerifC08Crash",
         "quick": {"shards": 16, "checks": 3}, "thorough": {"shards": 16, "checks": 100, "timeout": 3400}},
        {"name": "C08exh", "pkg": "server/commitlog", "test": "TestVerifC08Exh", "kind": "exhaustive",
         "quick": {"shards": 16, "params": {"LEN": 4}}, "thorough": {"shards": 16, "params": {"LEN": 5}, "timeout": 3000}},
        {"name": "C08b", "pkg": "server/commitlog", "test": "TestVerifC08b", "common": {"race": True},
         "quick": {"shards": 8, "checks": 60}, "thorough": {"shards": 16, "checks": 1500, "timeout": 3000}},
    ],
}

PROPS["C10"] = {
    "level": "exploration",
    "technique": "property-based testing (rapid): log shape x subscription request products against a reference function over the surviving messages",
    "level_text": 'log shape x request products: (a) package level: committed/uncommitted forward readers and committed reverse readers from every start offset, and both timestamp lookups, on dense, compacted, retention-trimmed logs with an empty active segment, any HW, read-only on/off, against a reference model, plus committed readers parked across cleans (a subscription that is being served while its segment is compacted or trimmed); (b) through the real partition.Subscribe on a bare server: every start position x stop position x direction, timestamps at/between/outside message times, HW below the end, read-only, messages committed after the subscription started, against a reference function over the surviving messages',
    "level_note": "start offsets beyond the HW are positioned at HW+1 (pinned by TestSubscribeOffsetOverflow); negative stop offsets are not generated (-1 is the API's no-stop sentinel); reverse subscriptions must end but their end status is undocumented and not compared; an empty finite range may end at once or wait for the next commit",
    "rule": 'rapid draws the shape (0-24 messages with 3 keys, timestamp deltas {0,1,10,100}, segment size {1,150,300,1000,1MiB}, HW = newest-{0,1,2,5,all}, optional compacting clean, optional message-retention clean, read-only) and the request (5 start positions x 4 stop positions x 2 directions, offset/timestamp selectors resolved against the shape, 0-4 messages committed after subscribing). Non-trivial = a sparse or trimmed log or HW below the end, combined with a start/stop on a removed offset, a timestamp position or the reverse direction. Labels give the shape x request table.',
    "assumptions": TRUST,
    "units": [
        {"name": "C10cl", "pkg": "server/commitlog", "test": "TestVerifC10cl",
         "quick": {"shards": 16, "checks": 600}, "thorough": {"shards": 16, "checks": 6000, "timeout": 3000}},
        {"name": "C10", "pkg": "server", "test": "TestVerifC10",
         "quick": {"shards": 16, "checks": 250}, "thorough": {"shards": 16, "checks": 5000, "timeout": 3000}},
    ],
}

PROPS["C16"] = {
    "level": "exploration",
    "technique": "model-based property testing (rapid) at the commit-log level + concurrent racing publishers against an invariant over acks and the final log + sequential model-based histories through every server of a started cluster",
    "level_text": "(a) commit-log level: sequences of single-message appends with optimistic concurrency control and expected offsets next / next-1 / next+1 / 0 / huge / waived (-1), with reopens and reader probes, against the rule 'stored iff waived or equal to the next offset; otherwise ErrIncorrectOffset and the log (contents, offsets, file sizes) unchanged'",
    "level_note": 'the concurrent (racing publishers through the API) part is covered by unit C16b; unit C16c runs one publisher at a time on a started 3-server cluster (replication factor 1-3) and sends each RPC to the partition leader, a follower or a server without a replica: a publish naming the offset it will be assigned (or waiving the check) must be stored there, any other refused with the log unchanged; batches of one message as the leader loop guarantees with OCC',
    "rule": 'rapid draws 1-30 steps: occ-append with an expected-offset class, reopen, probe; segment size from {1,150,300,1024,default}. Non-trivial = a rejected append followed by at least two accepted ones.',
    "assumptions": TRUST,
    "units": [
        {"name": "C16a", "pkg": "server/commitlog", "test": "TestVerifC16a",
         "quick": {"shards": 8, "checks": 1500}, "thorough": {"shards": 16, "checks": 20000, "timeout": 3000}},
        {"name": "C16b", "pkg": "server", "test": "TestVerifC16b",
         "quick": {"shards": 4, "checks": 40}, "thorough": {"shards": 16, "checks": 600, "timeout": 3000}},
        # started 3-server cluster: one publisher at a time, the RPC goes to the partition leader, a follower or a non-replica
        {"name": "C16c", "pkg": "server", "test": "TestVerifC16c",
         "quick": {"shards": 4, "checks": 25}, "thorough": {"shards": 16, "checks": 300, "timeout": 3000}},
    ],
}
PROPS["C03"] = {
    "level": "exploration",
    "technique": "model-based stateful property testing (rapid) with persistent committed readers + concurrent monitor under the race detector + generated catch-up histories of real followers with parked committed readers",
    "level_text": '(a) sequential interleavings with persistent committed readers: append / HW advance (anywhere, exactly on the last message of a segment, exactly on the first) / new reader (any start, beyond the HW, empty log) / read / read-only toggle, each read compared with the model (must deliver exactly the next committed message, or must not deliver anything); (b) real goroutines under the race detector: appender, HW advancer with lag and step, 1-6 readers created mid-run, read-only toggler; every reader checks online that what it gets is committed, consecutive, with the stored content, and reaches the final HW',
    "level_note": 'one appending goroutine per log (as the leader loop / follower handler guarantee); (b) samples schedules, rapid cannot shrink them; negative expectations (must block) are positive-observation checks; operation parkro parks a reader at the HW in a real blocking ReadMessage while the log is switched to read-only: it must stay blocked if uncommitted messages remain and must end otherwise; SetHighWatermark with a lower value must be ignored; the concurrent unit runs two HW movers (as a leader has) and checks that the HW is never observed below a value whose SetHighWatermark call has returned; unit C03c runs on three bare servers sharing a NATS server (the world of C02): the ISR is shrunk to the leader, committed readers are parked on the followers, the leader commits 4-14 messages alone and the followers then catch up in several small fetches (clustering.replication.max.bytes 150-600), each response carrying the leader HW: every message the follower HW covers at the end must have reached its parked reader once and in order',
    "rule": '(a) rapid draws 2-60 steps over segment sizes {1,64,150,300,1024}; non-trivial = a reader that blocked with the HW resting on the last message of a segment and later crossed into the next segment. (b) rapid draws batch sizes, lag, step, reader creation points and start fractions, toggles, yield pattern, and in a third of the cases a goroutine that runs the roll check of the cleaner loop (segment.max.age 20-500 us, wall-clock message timestamps) next to the appender; non-trivial = >=2 readers parked in waitForHW at once and >=1 roll.',
    "assumptions": TRUST,
    "units": [
        {"name": "C03a", "pkg": "server/commitlog", "test": "TestVerifC03a",
         "quick": {"shards": 16, "checks": 800}, "thorough": {"shards": 16, "checks": 8000, "timeout": 3000}},
        {"name": "C03b", "pkg": "server/commitlog", "test": "TestVerifC03b", "common": {"race": True},
         "quick": {"shards": 8, "checks": 60}, "thorough": {"shards": 16, "checks": 600, "timeout": 3000}},
        # three bare servers: a committed reader blocked on a follower that is out of the ISR and catches up in several small fetches
        {"name": "C03c", "pkg": "server", "test": "TestVerifC03c",
         "quick": {"shards": 4, "checks": 10}, "thorough": {"shards": 16, "checks": 100, "timeout": 3000}},
    ],
}

PROPS["C17"] = {
    "level": "exploration",
    "technique": "property-based testing (rapid): round-trip, no-plaintext and single-byte tamper / wrong-key metamorphic relations",
    "level_text": 'round trip Read(Seal(v))=v for empty/short/large/all-zero/patterned values under 16- and 32-byte master keys; the stored form never contains a >=8 byte value; two seals differ; every single-byte corruption (all positions for small values, region-targeted otherwise: length byte, wrapped key, nonce, ciphertext+tag; 4 replacement values) and every different master key makes Read return an error - returning data or panicking is a violation',
    "level_note": 'package level (LocalEncryptionHandler) plus unit C17b on a started server: values published one by one or as a burst to an encrypted stream - in a third of the cases the stream is paused in between and resumed by the next publish, which recreates the partition - must not appear in the segment files and must reach a subscriber unchanged; a chance occurrence of an >=8 byte plaintext in ciphertext has probability < 2^-50; Seal uses crypto/rand so replays are not byte-identical, the oracle does not depend on the bytes',
    "rule": 'rapid draws kind (roundtrip/wrongkey/tamper), value class, printable master keys, tamper region/position/replacement or all positions. Non-trivial = tamper or wrongkey, or a roundtrip with a value of >=8 bytes.',
    "assumptions": TRUST,
    "units": [
        {"name": "C17a", "pkg": "server/encryption", "test": "TestVerifC17a",
         "quick": {"shards": 16, "checks": 3000}, "thorough": {"shards": 16, "checks": 100000, "timeout": 3000}},
        {"name": "C17b", "pkg": "server", "test": "TestVerifC17b",
         "quick": {"shards": 4, "checks": 15}, "thorough": {"shards": 16, "checks": 100, "timeout": 3000}},
    ],
}

PROPS["C19"] = {
    "level": "exploration",
    "technique": "property-based testing (rapid): disable-route x value products against an effective-setting model, recorded HTTP transport, payload key whitelist + marker taint check",
    "level_text": '(a) collector level: http.DefaultTransport replaced by a recorder; Enabled=false => zero requests over many intervals and restarts; enabled => every request goes to the documented endpoint, its JSON keys are a subset of the documented whitelist, no marker/data-dir string in body or headers, nothing after Stop; in half of the enabled cases deliveries fail in a generated pattern (status 500/404 with a response that names a host and an address, or a transport error whose text carries an address) between deliveries that get through, and every later report is held to the same whitelist and must not carry those names; (cfg) every route of disabling telemetry - config file true/false/absent x LIFTBRIDGE_TELEMETRY_ENABLED unset/false/0/FALSE/f/true/1 x with/without file - against the precedence model env > file > default',
    "level_note": 'unit C19b starts a whole server with telemetry on or off (off: with telemetry intervals 1, 0, -1 and 86400 s) with streams, messages and NATS credentials that carry a marker, and watches the recorded transport: no request when off (for 2 s if the server created a collector all the same - on the present code it does not), only documented fields and no marker when on',
    "rule": 'rapid draws collector configs (enabled, interval 1ms-24h, marker in the data dir, waits, restart) and configuration cases. Non-trivial = a disabled collector that lived through several intervals, any enabled case, an env route that overrides or replaces the file, or a file route that disables.',
    "assumptions": TRUST,
    "units": [
        {"name": "C19a", "pkg": "server/telemetry", "test": "TestVerifC19a",
         "quick": {"shards": 8, "checks": 100}, "thorough": {"shards": 16, "checks": 2000, "timeout": 3000}},
        {"name": "C19b", "pkg": "server", "test": "TestVerifC19b",
         "quick": {"shards": 4, "checks": 4}, "thorough": {"shards": 8, "checks": 25, "timeout": 3000}},
        {"name": "C19cfg", "pkg": "server", "test": "TestVerifC19cfg",
         "quick": {"shards": 2, "checks": 400}, "thorough": {"shards": 4, "checks": 4000}},
    ],
}

PROPS["C12"] = {
    "level": "exploration",
    "technique": "model-based stateful property testing (rapid) + bounded-exhaustive enumeration of short histories; invariant over assignments + determinism between two replicas",
    "level_text": 'histories of join/leave/expire/stream-delete/stream-create over one consumer group (<=5 members, <=3 streams, 1-5 partitions) on the real consumerGroup object; after every step: every partition of every subscribed stream has exactly one owner who subscribed to it, nobody holds foreign or non-existent partitions, single-stream groups differ by <=1, a second object fed the same history (optionally rebuilt from a snapshot of its members in another order) hands out identical assignments, a stale epoch is refused; in half of the histories (and in all of C12exh) the second object plays a server that applies the operations while it replays its Raft log: a deleted stream is only tombstoned there and still reports its partitions, and both objects must hand out the same assignments all the same. Unit C12exh runs EVERY sequence of up to 5 (thorough: 6) operations over a 14-letter alphabet (join of m0-m2 to {s0},{s1},{s0,s1}; leave of m0-m2; delete and re-create of s0; s0 has 2 then 3 partitions, s1 has 3) through the same executor and oracle',
    "level_note": 'object level (the metadata layer around it is exercised by C06); timers set to 1h so expiry is a generated operation; while the open finding C12-snapshot-restore-changes-assignments is excluded, only the comparison of the rebuilt object with the live one is skipped: the rebuild is still performed and the rebuilt object is held to the assignment invariants (signature prefix C12/restored-group/)',
    "rule": 'rapid draws 1-25 operations with preconditions resolved at run time. Non-trivial = >=3 members with overlapping subscriptions and a later leave/expire/stream delete. C12exh: 579,194 sequences (quick) / 8,108,730 (thorough), complete for its alphabet and length bound (coverage.exhaustive_units).',
    "assumptions": TRUST,
    "units": [
        {"name": "C12", "pkg": "server", "test": "TestVerifC12",
         "quick": {"shards": 16, "checks": 2000}, "thorough": {"shards": 16, "checks": 20000, "timeout": 3000}},
        # bounded-exhaustive: every sequence of <= LEN operations over a 14-letter alphabet (3 members, 2 streams)
        {"name": "C12exh", "pkg": "server", "test": "TestVerifC12Exh", "kind": "exhaustive",
         "quick": {"shards": 16, "params": {"LEN": 5}}, "thorough": {"shards": 16, "params": {"LEN": 6}, "timeout": 3000}},
    ],
}

PROPS["C13"] = {
    "level": "exploration",
    "technique": "model-based stateful property testing (rapid) of group subscribes/cancels/ends + concurrent interval monitor under the race detector",
    "level_text": "sequences of group subscribes (2 groups, 3 consumer ids, epochs 0-4, on-cancel or finite), client cancellations (context first or Close first), natural ends and publishes on one partition of a bare server through the real partition.Subscribe; model: the last accepted subscriber holds the partition; an older epoch must be refused without disturbing the holder, an equal/newer one must succeed and cancel the holder; at every quiescent point at most one active subscription per group and the partition's registration names it",
    "level_note": 'the harness does what api.Subscribe does around partition.Subscribe (cancel the stream context and Close the subscription when it returns); loop clean-up is asynchronous, so registry checks are retried and only a state persisting for 22 s is a violation; in a third of the replacements the harness delays that cancellation: the caller of the replaced subscription keeps its context and keeps receiving while 24 more messages are committed - a cancelled loop may hand over a message it already holds (a coin toss per message), but not 24 in a row',
    "rule": 'rapid draws 2-20 steps. Non-trivial = a replacement by the same consumer id, a refused stale-epoch subscriber while a holder exists, or a natural end followed by a new subscriber.',
    "assumptions": TRUST,
    "units": [
        {"name": "C13a", "pkg": "server", "test": "TestVerifC13a",
         "quick": {"shards": 16, "checks": 300}, "thorough": {"shards": 16, "checks": 10000, "timeout": 3000}},
        {"name": "C13b", "pkg": "server", "test": "TestVerifC13b",
         "quick": {"shards": 8, "checks": 150}, "thorough": {"shards": 16, "checks": 3000, "race": True, "timeout": 3000}},
    ],
}

PROPS["C06"] = {
    "level": "exploration",
    "technique": "model-based property testing (rapid): generated valid metadata histories x snapshot/restart splits; determinism, restart-stability and replay-safety relations over the observable metadata view",
    "level_text": "valid metadata histories (create/delete incl. re-create, pause some/all with resumeAll, resume, read-only on/off, ISR shrink/expand, leader change, group create/join/leave/coordinator change, publish-activity) resolved against a model that mirrors the controller's preconditions and applied through the real Server.apply on bare servers: (1) two fresh servers agree after every prefix; (2) a server that applied r operations live, snapshotted at s (Persist possibly after further applies), was shut down and rebuilt on the same data directory from Restore + recovered replay of s+1..r + finishedRecovery + live r+1.. equals a server that applied everything live; (3) marker messages of streams that still exist survive. Unit C06c: a started 3-server cluster (real Raft): create/delete/pause/read-only/join/leave through the controller's API, user-triggered Raft snapshots on any server, servers stopped and started again (restore from their snapshot plus replay of the log behind it; a stopped controller means a failover), operations while a server is down; once every server has applied the same Raft index, all three must hold the same metadata view (streams, partitions, ISR, leaders, epochs, paused/read-only flags, groups, members, group epochs)",
    "level_note": 'unit C06: Raft is replaced by the harness feeding (op, index, recovered), replicas are foreign ids so no data plane starts; unit C06c: real Raft, seconds per history so tens of histories; left-over partition directories of an earlier incarnation of a re-created stream are ignored; in a third of the C06 cases the restarted server takes a second snapshot while it is still replaying the log (before its recovery is finished), and a third incarnation that starts from that snapshot and replays the rest must reach the same state',
    "rule": 'unit C06s: a started single-node server with real Raft and a file snapshot store that commits nothing of its own (no cursors or activity stream): 3-14 operations of create / delete / pause / publish / Raft snapshot / restart (up to three); after every restart the metadata view is the one before the stop, every partition the server leads is led again within 20 s, holds the acknowledged messages and accepts a publish; non-trivial = a restart right after a snapshot (nothing to replay behind it). rapid draws 3-40 operations, snapshot and restart positions and a persist delay. Non-trivial = a snapshot strictly inside the history taken after one of: delete+create, pause->resume, read-only on, leader change, ISR shrink, group emptied. C06c: 9-25 operations with up to two stop/start pairs; non-trivial = a server was restarted after it had taken a snapshot of its own.',
    "assumptions": TRUST,
    "units": [
        {"name": "C06", "pkg": "server", "test": "TestVerifC06",
         "quick": {"shards": 16, "checks": 150}, "thorough": {"shards": 16, "checks": 5000, "timeout": 3000}},
        {"name": "C06c", "pkg": "server", "test": "TestVerifC06c",
         "quick": {"shards": 8, "checks": 3, "timeout": 600}, "thorough": {"shards": 8, "checks": 25, "timeout": 3000}},
        # a started single-node server that commits nothing of its own: restarts from a snapshot with nothing to replay behind it
        {"name": "C06s", "pkg": "server", "test": "TestVerifC06s",
         "quick": {"shards": 8, "checks": 5, "timeout": 900}, "thorough": {"shards": 16, "checks": 60, "timeout": 3000}},
    ],
}

PROPS["C15"] = {
    "level": "exploration",
    "technique": "property-based testing (rapid): random policy sets x API call sequences on a started server; exact-match policy model as oracle, state digest before/after denied calls, sentinel publishes",
    "level_text": "on a started single-node server with ACLs on (real casbin enforcer, repository model.conf, generated policy CSV reloaded by a real SIGHUP): sequences of calls of every client API method by two clients and by a caller without identity (no verified certificate: its context carries no client id, it is allowed nothing) against an exact-match policy model; a denied call must return an error (PERMISSION_DENIED async error for PublishAsync) and leave the state digest (streams, paused/read-only flags, every partition's messages, cursors, existing group subscription) unchanged - publishes are followed by an authorised AckPolicy-ALL sentinel on the same connection; an allowed call must not be refused for authorisation; plus the configuration route tls.client.auth(z).enabled",
    "level_note": 'the client id is put into the context exactly as addUserContext does (TLS handshake not exercised); consumer-group RPCs have no documented policy action and are only exercised; SetCursor needs SetCursor on the stream and Publish on __cursors (documented)',
    "rule": 'rapid draws a policy subset of 2 clients x 5 resources x 11 actions and 3-14 steps (19 call kinds incl. resume-on-subscribe, group take-over, publish to a paused stream, async batches; policy reloads). Non-trivial = a denied call whose handler has a side effect before/without the check, or any denied call after a reload.',
    "assumptions": TRUST,
    "units": [
        {"name": "C15", "pkg": "server", "test": "TestVerifC15",
         "quick": {"shards": 4, "checks": 60}, "thorough": {"shards": 16, "checks": 600, "timeout": 3000}},
        {"name": "C15cfg", "pkg": "server", "test": "TestVerifC15cfg",
         "quick": {"shards": 2, "checks": 300}, "thorough": {"shards": 4, "checks": 3000}},
    ],
}

PROPS["C11"] = {
    "level": "exploration",
    "technique": "model-based stateful property testing (rapid): SetCursor/FetchCursor histories with cleans, cache purges, pauses and restarts on a started server against a map",
    "level_text": ("histories of SetCursor/FetchCursor over 3-40 (thorough: 600 > cache size) cursor keys on a started single-node server with a 2-partition cursors stream and tiny "
                   "segments, interleaved with forced compaction of the cursors partitions, cache purges (what a leadership change does), cache bypass, pausing the cursors stream "
                   "(auto-resumed by the next call) and server restarts (half of them right after a Raft snapshot; unless the cursors stream was paused in the history, the restarted server must answer a fetch within 20 s); every FetchCursor that returns without error must return the value of the last successful SetCursor (or -1); "
                   "a final sweep fetches every key through the log and through the cache. Unit C11b: three bare servers sharing one NATS server with a 3-replica cursors partition (the harness plays the Raft log, replication is real); "
                   "SetCursor/FetchCursor/clean on the current leader interleaved with changes of the cursors-partition leader among the three (also back to an earlier leader, whose cache must have been purged); "
                   "a fetch on the new leader must return the last acknowledged SetCursor"),
    "level_note": "C11 unit: single node, with operation race (2-4 concurrent SetCursor calls for one cursor, in half of the cases with the cursor evicted from the cache and two concurrent FetchCursor calls: afterwards the cache and the log must agree); C11b unit: operation fetchold sends a fetch to a server that does not lead the cursors partition (refused, or current); leader changes are applied by the new leader first (the opposite order is the territory of the open finding C02-hw-truncation-fallback); an error return is not a violation (counted, >20% makes the case inconclusive); a failed SetCursor makes both the old and the new value acceptable",
    "rule": "rapid draws key count and 4-40 operations (set, burst of sets, fetch, clean, purge, cache toggle, pause, restart, race = 2-4 concurrent SetCursor calls for one cursor followed by a fetch through the cache and one through the log, which must agree). Non-trivial = at least one forced clean after cursors were stored (so later fetches read compacted, non-newest segments). C11b: 5-40 operations over 4 keys; non-trivial = a fetch answered correctly after at least one leader change.",
    "assumptions": TRUST,
    "units": [
        {"name": "C11", "pkg": "server", "test": "TestVerifC11",
         "quick": {"shards": 8, "checks": 25}, "thorough": {"shards": 16, "checks": 300, "timeout": 3000}},
        {"name": "C11b", "pkg": "server", "test": "TestVerifC11b",
         "quick": {"shards": 8, "checks": 30}, "thorough": {"shards": 16, "checks": 400, "timeout": 3000}},
    ],
}

PROPS["C07"] = {
    "level": "exploration",
    "technique": "model-based stateful property testing (rapid) + bounded-exhaustive enumeration of short request sequences: leader reports / ISR changes / leadership losses against a reference model of the documented quorum rule, invariants after every request",
    "level_text": ("sequences of ReportLeader (from any follower, in or out of the ISR, with current or stale (leader, epoch)), ShrinkISR/ExpandISR of followers (current or stale pair), "
                   "controller leadership losses and, in a 40 ms regime, waits past the expiry timer, against the real metadataAPI of a started single-node controller (real Raft, real FSM); "
                   "model: a leader change happens at a report iff more than half of the in-sync followers have reported the current (leader, epoch) since the last change/expiry/reset; "
                   "after every request: stale pairs are refused without effect, the new leader comes from the ISR and is not the old one, leader in ISR subset of replicas, epochs only grow, one leader per leader epoch. Unit C07exh runs EVERY sequence of up to 4 (thorough: 5) requests over a 12-letter alphabet on a 3-replica partition (report by replica 0-2 with the current or a stale epoch, report naming a wrong leader, shrink/expand of either follower, controller leadership loss) through the same executor and oracle"),
    "level_note": "replicas are foreign ids (this server is the controller only); the 40 ms regime discards (inconclusive) cases in which an 'immediate' step took >20 ms instead of guessing which side of the timer it fell on; operation bounce pauses and resumes the stream through the controller, which rebuilds the partition object from the stored record (as a snapshot restore does): leader, epoch and in-sync set must be what they were, the reports collected so far are forgotten; unit C07r sends the reports of all followers and ISR shrink requests by the leader (naming the pair current when they are sent) to the controller concurrently, with generated start delays of 0-2 ms: afterwards the leader must be in the in-sync set",
    "rule": "rapid draws 3 or 5 replicas, the timer regime and 3-30 requests. Non-trivial = a completed failover followed by further reports, an ISR change between two reports of one round, a report from a replica outside the ISR, or a timer expiry between reports. C07exh: 22,620 sequences (quick) / 271,452 (thorough), complete for its alphabet and length bound.",
    "assumptions": TRUST,
    "units": [
        {"name": "C07", "pkg": "server", "test": "TestVerifC07",
         "quick": {"shards": 8, "checks": 60}, "thorough": {"shards": 16, "checks": 2000, "timeout": 3000}},
        # bounded-exhaustive: every sequence of <= LEN operations over a 12-letter alphabet on a 3-replica partition
        # concurrent requests to the controller: a quorum of reports racing with ISR shrinks sent by the leader being deposed
        {"name": "C07r", "pkg": "server", "test": "TestVerifC07r",
         "quick": {"shards": 4, "checks": 60}, "thorough": {"shards": 16, "checks": 600, "timeout": 3000}},
        {"name": "C07exh", "pkg": "server", "test": "TestVerifC07Exh", "kind": "exhaustive",
         "quick": {"shards": 16, "params": {"LEN": 4}}, "thorough": {"shards": 16, "params": {"LEN": 5}, "timeout": 3000}},
    ],
}

PROPS["C04"] = {
    "level": "exploration",
    "technique": "model-based stateful property testing (rapid): publish bursts / replica progress reports / ISR changes against a real partition leader; every ack is judged against the model's commit state",
    "level_text": ("one real partition leader (bare server + NATS, real message loop, commit loop and replicators) with replication factor 1 or 3, min ISR 1-3, batch size 1/4/1024, optional optimistic concurrency control; "
                   "the harness plays the followers (real ReplicationRequest messages carrying their offset) and the controller (ISR shrink/expand applied through Server.apply), and publishes bursts with mixed NONE/LEADER/ALL policies, "
                   "sizes around the replication limit and expected offsets. After every step all acks the model expects must have arrived and every arrived ack is judged: ALL only once every ISR member reported the offset and |ISR|>=min; "
                   "LEADER once stored; never for NONE; exactly once; right offset and policy; rejected messages (too large, wrong expected offset, failed encryption) nacked with the right error and absent from the log; at quiescence HW == end of log"),
    "level_note": "followers are simulated by the harness (their claimed offsets are trusted by the leader, as in the protocol); the failed-encryption rejection is provoked by injection: in a quarter of the cases the leader's encryption handler is replaced by a stand-in that stores values as they are and fails for marked values (the real handler fails only when the system random source does), and such a message must be nacked with the ENCRYPTION error, never stored, and leave the offsets of its neighbours in the burst unchanged; negative expectations (no ack yet) use a 3 ms grace period after all expected acks arrived",
    "rule": "rapid draws RF, min ISR, batch size, OCC and 2-18 steps (publish burst of 1-5, report(replica, fraction of the log), shrink, expand). Non-trivial = the ISR changed while an ALL message was pending, or a burst mixed ack policies, or min ISR blocked a commit.",
    "assumptions": TRUST,
    "units": [
        {"name": "C04", "pkg": "server", "test": "TestVerifC04",
         "quick": {"shards": 8, "checks": 40}, "thorough": {"shards": 16, "checks": 600, "timeout": 3000}},
    ],
}

PROPS["C02"] = {
    "level": "exploration",
    "technique": "model-based stateful property testing (rapid): fault sequences over a 3-replica mini-cluster (real replication/truncation/commit code, harness-driven metadata log), history invariants after every step",
    "level_text": ("fault sequences over a 3-replica partition on three bare servers sharing one in-process NATS server: publish (LEADER/ALL policy), settle, hold/release replication per replica, "
                   "crash (with a current or stale HW checkpoint) and restart of any replica with log reconciliation, ISR shrink/expand (also while behind), elections from the ISR (followers or leader applying the change first, "
                   "old leader crashed or deposed alive), servers that lag in applying metadata (a leader that has not learned it was replaced keeps accepting publishes and serving replication), eight directed templates (double failovers, an empty term, a replica away across a failover that is elected later, a deposed-but-alive leader answering requests meant for its successor, a leader two leader changes behind, a follower that keeps fetching with an old leader epoch); replication, truncation, leader-offset requests, epoch caches and commit are the real code, the harness plays the Raft log through the real Server.apply. "
                   "After every step: each replica's log is contiguous with non-decreasing epochs, HW never moves back within an incarnation, any two replicas agree on every offset at or below both HWs, "
                   "every ALL-acknowledged message is served unchanged at its offset by every later leader, no offset is acknowledged for two messages. Unit C02c: a started 3-server cluster in which elections, ISR shrinks and expansions are decided by the real code (follower reports, controller quorum, replicator lag detection); the harness publishes (LEADER/ALL), stops the partition leader or a follower (up to three times per history), waits and starts it again; same invariants after every step and at quiescence (all replicas identical up to HW = end)"),
    "level_note": "metadata operations are delivered by the harness, not by hashicorp/raft (elections always pick from the recorded ISR, as the controller does); one known finding (HW-truncation fallback, issue #38) is excluded by construction and counted: a follower never restarts while no leader is reachable, and followers never apply a leader change before the new leader does; in C02c, where the real Raft decides the order, a case is excluded (and counted) as soon as a server logs the HW-truncation fallback; unit C02e works at the commit-log level: the leader-epoch history reconciliation is computed from (the follower names its last epoch, the leader answers with where that epoch ends) must map every retained message to the epoch it was written in after every append with a leader change, retention or compaction clean and reopen (C09 operation alphabet with epoch bumps in a third of the appends)",
    "rule": "rapid draws 4-30 steps or one of eight directed templates. Non-trivial = at least one leader change after a committed publish; labels count two leader changes, stale HW checkpoints, rejoin with an uncommitted tail, leaders deposed alive, expands while behind. C02c: 5-30 operations, 12 histories in quick; non-trivial = at least one server was stopped after an ALL-acknowledged publish and the case was not excluded.",
    "assumptions": TRUST,
    "units": [
        {"name": "C02", "pkg": "server", "test": "TestVerifC02",
         "quick": {"shards": 8, "checks": 25}, "thorough": {"shards": 16, "checks": 400, "timeout": 3000}},
        {"name": "C02c", "pkg": "server", "test": "TestVerifC02c",
         "quick": {"shards": 6, "checks": 2, "timeout": 700}, "thorough": {"shards": 8, "checks": 20, "timeout": 3300}},
        # commit-log level: the leader-epoch history that reconciliation is computed from, under retention, compaction and reopen
        {"name": "C02e", "pkg": "server/commitlog", "test": "TestVerifC02e",
         "quick": {"shards": 8, "checks": 1000}, "thorough": {"shards": 16, "checks": 20000, "timeout": 3000}},
    ],
}

PROPS["C05"] = {
    "level": "fault_enumeration",
    "technique": "fault injection at named crash points (build-tag hooks) in a child process + journal-based Must/May oracle; every hit of every crash point enumerated per generated workload (unit C05enum), plus sampled (point, occurrence) pairs over many more workloads (unit C05)",
    "level_text": ("a workload from the C01/C08/C09 operation alphabet (appends that roll, replicated sets, truncations, retention and compaction cleans, HW moves, checkpoints, reopens) runs in a child process that is SIGKILLed by a build-tag hook at a named point between two file-system effects (log write / index write / file create / rename / remove / checkpoint replace); the child journals, before every operation, the state before it and the state predicted after it (obtained from a shadow log driven with the hooks suspended). The parent reopens what the crash left behind and checks: New succeeds; offsets strictly increase; every message equals the journalled one; Must (in both states) is a subset of what is read, which is a subset of May (in either state); HW not above the pre-crash HW; epoch history covers the newest message; a log on which compaction never ran reads as one contiguous run of offsets (no hole left by a half-done truncation or retention clean); and the log stays usable (appends get the next offsets, reopen/truncate/clean keep the contents consistent). unit C05enum enumerates every hit of every crash point for each of its workloads (quick: 48 workloads, thorough: 1920); unit C05 samples one (point, occurrence) pair per workload over many more workloads"),
    "level_note": "process-crash model (what was written stays; no torn writes, no power loss), crashes only at the 20 instrumented points (hooks listed in MANIFEST.hooks); index entries are written through a shared mmap, which survives SIGKILL like the page cache",
    "rule": "rapid draws a workload of 3-22 operations, a crash-point hit selector (resolved by a counting run of the same workload) and 1-4 tail operations. Non-trivial = the kill happened inside an operation (not while opening the log). C05enum: every generated workload x every crash-point hit (counters crash_points_in_workload / crashes).",
    "assumptions": TRUST,
    "units": [
        {"name": "C05", "pkg": "server/commitlog", "test": "TestVerifC05",
         "quick": {"shards": 16, "checks": 40}, "thorough": {"shards": 16, "checks": 400, "timeout": 3400}},
        {"name": "C05enum", "pkg": "server/commitlog", "test": "TestVerifC05Enum",
         "quick": {"shards": 16, "checks": 3}, "thorough": {"shards": 16, "checks": 120, "timeout": 3400}},
    ],
}

PROPS["C18"] = {
    "level": "exploration",
    "technique": "model-based stateful property testing (rapid): metadata-operation histories with injected activity-publish failures and restarts on a started server, activity stream compared with the committed Raft log",
    "level_text": ("histories of stream and consumer-group operations (create/delete/pause/resume/read-only/join/leave) through the API of a started single-node server with the activity stream enabled, "
                   "interleaved with windows in which publishing to __activity fails (the stream is set read-only, so the dispatcher backs off and retries) and with server restarts (also inside such a window); "
                   "ground truth is the committed Raft log read back from the store: every event-producing operation has at least one event, event id = its Raft index, content equals the operation, "
                   "first occurrences appear in strictly increasing id order, a redelivery is identical to the first delivery, no event without an operation; bounded liveness: the dispatcher catches up within 45 s after the last fault. "
                   "Unit C18c runs the same operations and the same oracle on a started 3-server cluster (real Raft between the servers, real failure detectors, 3-replica activity partition): the current controller is stopped (up to twice per history), "
                   "operations continue on the newly elected controller while one server is down, the stopped server comes back; the Raft log is read from the final controller and the events from the final leader of the activity partition (90 s bound)"),
    "level_note": "C18: single node, the controller change is a restart of the only controller; C18c: controller failover between brokers, 8 histories in quick (seconds each), so tens of histories, not thousands; no network partition (a deposed controller that keeps running) is driven",
    "rule": "rapid draws 4-14 operations with up to two fault windows/restarts. Non-trivial = the history contains at least one publish-failure window or restart (so a retry or a resume from the recorded index happened). C18c: 6-20 operations with up to two controller failovers; non-trivial = at least one failover.",
    "assumptions": TRUST,
    "units": [
        {"name": "C18", "pkg": "server", "test": "TestVerifC18",
         "quick": {"shards": 8, "checks": 4, "timeout": 400}, "thorough": {"shards": 16, "checks": 60, "timeout": 3000}},
        {"name": "C18c", "pkg": "server", "test": "TestVerifC18c",
         "quick": {"shards": 4, "checks": 2, "timeout": 600}, "thorough": {"shards": 8, "checks": 12, "timeout": 3000}},
    ],
}
