#!/usr/bin/env python3
"""Mutation self-test: applies each mutant of mutants/<ID>.py to a scratch copy of
/repo (under /dev/shm), runs the quick check against the copy (VERIF_REPO) and expects
exit 1 (a VIOLATION). Usage: selftest.py <ID> [name-substring] [--tier quick]
The scratch copy and its build output are removed afterwards. Not part of MANIFEST."""
import json, os, shutil, subprocess, sys, time, hashlib

VERIF = os.path.dirname(os.path.dirname(os.path.abspath(__file__)))


def main():
    pid = sys.argv[1]
    filt = sys.argv[2] if len(sys.argv) > 2 and not sys.argv[2].startswith("--") else ""
    ns = {}
    exec(open(os.path.join(VERIF, "mutants", pid + ".py")).read(), ns)
    muts = ns["MUTANTS"]
    results = []
    for m in muts:
        if filt and filt not in m["name"]:
            continue
        copy = "/dev/shm/mut-%s-%d" % (pid, os.getpid())
        shutil.rmtree(copy, ignore_errors=True)
        subprocess.check_call(["rsync", "-a", "--exclude", ".git", "/repo/", copy + "/"])
        try:
            edits = m["edits"] if "edits" in m else [m]
            for e in edits:
                path = os.path.join(copy, e["file"])
                s = open(path).read()
                if s.count(e["old"]) != 1:
                    raise SystemExit("mutant %s: pattern occurs %d times in %s" % (m["name"], s.count(e["old"]), e["file"]))
                open(path, "w").write(s.replace(e["old"], e["new"]))
            env = dict(os.environ, VERIF_REPO=copy)
            t0 = time.time()
            p = subprocess.run([os.path.join(VERIF, "check"), pid, "--tier", "quick", "--no-evidence"] + (["--units", os.environ.get("SELFTEST_UNITS") or m["units"]] if (os.environ.get("SELFTEST_UNITS") or m.get("units")) else []),
                               env=env, stdout=subprocess.PIPE, stderr=subprocess.STDOUT, text=True)
            dt = time.time() - t0
            sigs = [l for l in p.stdout.splitlines() if l.startswith("---- violation")]
            verdict = "KILLED" if p.returncode == 1 else ("SURVIVED" if p.returncode == 0 else "INCONCLUSIVE(rc=%d)" % p.returncode)
            print("%-10s %-45s %5.1fs %s" % (verdict, m["name"], dt, "; ".join(sigs)[:160]), flush=True)
            if p.returncode not in (0, 1):
                print(p.stdout[-1500:])
            results.append((m["name"], verdict))
        finally:
            shutil.rmtree(copy, ignore_errors=True)
            tag = hashlib.sha1(copy.encode()).hexdigest()[:8]
            bd = os.path.join(VERIF, "build")
            for fn in os.listdir(bd):
                if tag in fn:
                    os.remove(os.path.join(bd, fn))
            for fn in os.listdir(os.path.join(bd, "bin")):
                if tag in fn:
                    os.remove(os.path.join(bd, "bin", fn))
    bad = [r for r in results if r[1] != "KILLED"]
    print("%d/%d mutants killed" % (len(results) - len(bad), len(results)))
    return 1 if bad else 0


if __name__ == "__main__":
    sys.exit(main())
