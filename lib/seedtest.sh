#!/bin/sh
# lib/seedtest.sh <seeded-dir-name> <property id> [--units x]  : applies a kept seeded change to /repo, runs the quick check, undoes it
name=$1; id=$2; shift 2
cd /verif || exit 2
git -C /repo diff --quiet || { echo "/repo has local changes"; exit 2; }
git -C /repo apply /verif/seeded/$name/patch.diff || { echo "patch does not apply"; exit 2; }
./check $id --no-evidence "$@" > /tmp/seedtest-$name.log 2>&1; rc=$?
git -C /repo checkout -- .
echo "seed $name vs $id: rc=$rc $(grep -E '^---- violation' /tmp/seedtest-$name.log | head -3 | tr '\n' ' ')"
tail -1 /tmp/seedtest-$name.log | cut -c1-200
