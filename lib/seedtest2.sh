#!/bin/sh
# lib/seedtest2.sh <seeded-dir-name> <property id> [--units x]: like seedtest.sh but on a scratch copy of /repo
# (VERIF_REPO), for use while other jobs read /repo. The copy is removed afterwards.
name=$1; id=$2; shift 2
cd /verif || exit 2
C=/dev/shm/seedcopy-$$
rm -rf $C; rsync -a --exclude .git /repo/ $C/ || exit 2
(cd $C && patch -p1 -s < /verif/seeded/$name/patch.diff) || { echo "patch does not apply"; rm -rf $C; exit 2; }
VERIF_REPO=$C ./check $id --no-evidence "$@" > /tmp/seedtest-$name.log 2>&1; rc=$?
rm -rf $C
echo "seed $name vs $id: rc=$rc $(grep -E '^---- violation' /tmp/seedtest-$name.log | head -3 | tr '\n' ' ')"
tail -1 /tmp/seedtest-$name.log | cut -c1-200
