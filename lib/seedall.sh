#!/bin/sh
# lib/seedall.sh: runs every kept seeded change against the quick check of its property (on scratch copies) and prints one line each
cd /verif
for d in seeded/*/; do
  n=$(basename $d); id=$(python3 -c "import json;print(json.load(open('$d/meta.json'))['property'])")
  lib/seedtest2.sh $n $id 2>&1 | head -1 | cut -c1-220
done
