#!/bin/sh
# runs every claimed quick check sequentially (as vp check does) and prints one line each
cd /verif
for id in $(python3 -c "import json;print(' '.join(c['property_id'] for c in json.load(open('MANIFEST.json'))['checks']))"); do
  out=$(./check $id --tier ${1:-quick} 2>&1); rc=$?
  echo "rc=$rc $(echo "$out" | tail -1 | cut -c1-200)"
  echo "$out" | grep -E "^(VIOLATION|INCONCLUSIVE|KNOWN-FINDING)" | cut -c1-300
done
